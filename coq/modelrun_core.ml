
type nat =
| O
| S of nat

(** val option_map : ('a1 -> 'a2) -> 'a1 option -> 'a2 option **)

let option_map f = function
| Some a -> Some (f a)
| None -> None

(** val fst : ('a1 * 'a2) -> 'a1 **)

let fst = function
| (x, _) -> x

(** val snd : ('a1 * 'a2) -> 'a2 **)

let snd = function
| (_, y) -> y

(** val length : 'a1 list -> nat **)

let rec length = function
| [] -> O
| _ :: l' -> S (length l')

(** val app : 'a1 list -> 'a1 list -> 'a1 list **)

let rec app l m =
  match l with
  | [] -> m
  | a :: l1 -> a :: (app l1 m)

type comparison =
| Eq
| Lt
| Gt

(** val compOpp : comparison -> comparison **)

let compOpp = function
| Eq -> Eq
| Lt -> Gt
| Gt -> Lt

type uint =
| Nil
| D0 of uint
| D1 of uint
| D2 of uint
| D3 of uint
| D4 of uint
| D5 of uint
| D6 of uint
| D7 of uint
| D8 of uint
| D9 of uint

type signed_int =
| Pos of uint
| Neg of uint

(** val revapp : uint -> uint -> uint **)

let rec revapp d d' =
  match d with
  | Nil -> d'
  | D0 d0 -> revapp d0 (D0 d')
  | D1 d0 -> revapp d0 (D1 d')
  | D2 d0 -> revapp d0 (D2 d')
  | D3 d0 -> revapp d0 (D3 d')
  | D4 d0 -> revapp d0 (D4 d')
  | D5 d0 -> revapp d0 (D5 d')
  | D6 d0 -> revapp d0 (D6 d')
  | D7 d0 -> revapp d0 (D7 d')
  | D8 d0 -> revapp d0 (D8 d')
  | D9 d0 -> revapp d0 (D9 d')

(** val rev : uint -> uint **)

let rev d =
  revapp d Nil

module Little =
 struct
  (** val double : uint -> uint **)

  let rec double = function
  | Nil -> Nil
  | D0 d0 -> D0 (double d0)
  | D1 d0 -> D2 (double d0)
  | D2 d0 -> D4 (double d0)
  | D3 d0 -> D6 (double d0)
  | D4 d0 -> D8 (double d0)
  | D5 d0 -> D0 (succ_double d0)
  | D6 d0 -> D2 (succ_double d0)
  | D7 d0 -> D4 (succ_double d0)
  | D8 d0 -> D6 (succ_double d0)
  | D9 d0 -> D8 (succ_double d0)

  (** val succ_double : uint -> uint **)

  and succ_double = function
  | Nil -> D1 Nil
  | D0 d0 -> D1 (double d0)
  | D1 d0 -> D3 (double d0)
  | D2 d0 -> D5 (double d0)
  | D3 d0 -> D7 (double d0)
  | D4 d0 -> D9 (double d0)
  | D5 d0 -> D1 (succ_double d0)
  | D6 d0 -> D3 (succ_double d0)
  | D7 d0 -> D5 (succ_double d0)
  | D8 d0 -> D7 (succ_double d0)
  | D9 d0 -> D9 (succ_double d0)
 end

module Coq__1 = struct
 (** val add : nat -> nat -> nat **)
 let rec add n0 m =
   match n0 with
   | O -> m
   | S p -> S (add p m)
end
include Coq__1

(** val mul : nat -> nat -> nat **)

let rec mul n0 m =
  match n0 with
  | O -> O
  | S p -> add m (mul p m)

type positive =
| XI of positive
| XO of positive
| XH

type n =
| N0
| Npos of positive

type z =
| Z0
| Zpos of positive
| Zneg of positive

module Nat =
 struct
  (** val leb : nat -> nat -> bool **)

  let rec leb n0 m =
    match n0 with
    | O -> true
    | S n' -> (match m with
               | O -> false
               | S m' -> leb n' m')

  (** val ltb : nat -> nat -> bool **)

  let ltb n0 m =
    leb (S n0) m
 end

module Pos =
 struct
  (** val succ : positive -> positive **)

  let rec succ = function
  | XI p -> XO (succ p)
  | XO p -> XI p
  | XH -> XO XH

  (** val add : positive -> positive -> positive **)

  let rec add x y =
    match x with
    | XI p ->
      (match y with
       | XI q -> XO (add_carry p q)
       | XO q -> XI (add p q)
       | XH -> XO (succ p))
    | XO p ->
      (match y with
       | XI q -> XI (add p q)
       | XO q -> XO (add p q)
       | XH -> XI p)
    | XH -> (match y with
             | XI q -> XO (succ q)
             | XO q -> XI q
             | XH -> XO XH)

  (** val add_carry : positive -> positive -> positive **)

  and add_carry x y =
    match x with
    | XI p ->
      (match y with
       | XI q -> XI (add_carry p q)
       | XO q -> XO (add_carry p q)
       | XH -> XI (succ p))
    | XO p ->
      (match y with
       | XI q -> XO (add_carry p q)
       | XO q -> XI (add p q)
       | XH -> XO (succ p))
    | XH ->
      (match y with
       | XI q -> XI (succ q)
       | XO q -> XO (succ q)
       | XH -> XI XH)

  (** val mul : positive -> positive -> positive **)

  let rec mul x y =
    match x with
    | XI p -> add y (XO (mul p y))
    | XO p -> XO (mul p y)
    | XH -> y

  (** val compare_cont : comparison -> positive -> positive -> comparison **)

  let rec compare_cont r x y =
    match x with
    | XI p ->
      (match y with
       | XI q -> compare_cont r p q
       | XO q -> compare_cont Gt p q
       | XH -> Gt)
    | XO p ->
      (match y with
       | XI q -> compare_cont Lt p q
       | XO q -> compare_cont r p q
       | XH -> Gt)
    | XH -> (match y with
             | XH -> r
             | _ -> Lt)

  (** val compare : positive -> positive -> comparison **)

  let compare =
    compare_cont Eq

  (** val eqb : positive -> positive -> bool **)

  let rec eqb p q =
    match p with
    | XI p0 -> (match q with
                | XI q0 -> eqb p0 q0
                | _ -> false)
    | XO p0 -> (match q with
                | XO q0 -> eqb p0 q0
                | _ -> false)
    | XH -> (match q with
             | XH -> true
             | _ -> false)

  (** val iter_op : ('a1 -> 'a1 -> 'a1) -> positive -> 'a1 -> 'a1 **)

  let rec iter_op op p a =
    match p with
    | XI p0 -> op a (iter_op op p0 (op a a))
    | XO p0 -> iter_op op p0 (op a a)
    | XH -> a

  (** val to_nat : positive -> nat **)

  let to_nat x =
    iter_op Coq__1.add x (S O)

  (** val of_uint_acc : uint -> positive -> positive **)

  let rec of_uint_acc d acc =
    match d with
    | Nil -> acc
    | D0 l -> of_uint_acc l (mul (XO (XI (XO XH))) acc)
    | D1 l -> of_uint_acc l (add XH (mul (XO (XI (XO XH))) acc))
    | D2 l -> of_uint_acc l (add (XO XH) (mul (XO (XI (XO XH))) acc))
    | D3 l -> of_uint_acc l (add (XI XH) (mul (XO (XI (XO XH))) acc))
    | D4 l -> of_uint_acc l (add (XO (XO XH)) (mul (XO (XI (XO XH))) acc))
    | D5 l -> of_uint_acc l (add (XI (XO XH)) (mul (XO (XI (XO XH))) acc))
    | D6 l -> of_uint_acc l (add (XO (XI XH)) (mul (XO (XI (XO XH))) acc))
    | D7 l -> of_uint_acc l (add (XI (XI XH)) (mul (XO (XI (XO XH))) acc))
    | D8 l ->
      of_uint_acc l (add (XO (XO (XO XH))) (mul (XO (XI (XO XH))) acc))
    | D9 l ->
      of_uint_acc l (add (XI (XO (XO XH))) (mul (XO (XI (XO XH))) acc))

  (** val of_uint : uint -> n **)

  let rec of_uint = function
  | Nil -> N0
  | D0 l -> of_uint l
  | D1 l -> Npos (of_uint_acc l XH)
  | D2 l -> Npos (of_uint_acc l (XO XH))
  | D3 l -> Npos (of_uint_acc l (XI XH))
  | D4 l -> Npos (of_uint_acc l (XO (XO XH)))
  | D5 l -> Npos (of_uint_acc l (XI (XO XH)))
  | D6 l -> Npos (of_uint_acc l (XO (XI XH)))
  | D7 l -> Npos (of_uint_acc l (XI (XI XH)))
  | D8 l -> Npos (of_uint_acc l (XO (XO (XO XH))))
  | D9 l -> Npos (of_uint_acc l (XI (XO (XO XH))))

  (** val to_little_uint : positive -> uint **)

  let rec to_little_uint = function
  | XI p0 -> Little.succ_double (to_little_uint p0)
  | XO p0 -> Little.double (to_little_uint p0)
  | XH -> D1 Nil

  (** val to_uint : positive -> uint **)

  let to_uint p =
    rev (to_little_uint p)
 end

module N =
 struct
  (** val add : n -> n -> n **)

  let add n0 m =
    match n0 with
    | N0 -> m
    | Npos p -> (match m with
                 | N0 -> n0
                 | Npos q -> Npos (Pos.add p q))

  (** val mul : n -> n -> n **)

  let mul n0 m =
    match n0 with
    | N0 -> N0
    | Npos p -> (match m with
                 | N0 -> N0
                 | Npos q -> Npos (Pos.mul p q))

  (** val compare : n -> n -> comparison **)

  let compare n0 m =
    match n0 with
    | N0 -> (match m with
             | N0 -> Eq
             | Npos _ -> Lt)
    | Npos n' -> (match m with
                  | N0 -> Gt
                  | Npos m' -> Pos.compare n' m')

  (** val eqb : n -> n -> bool **)

  let eqb n0 m =
    match n0 with
    | N0 -> (match m with
             | N0 -> true
             | Npos _ -> false)
    | Npos p -> (match m with
                 | N0 -> false
                 | Npos q -> Pos.eqb p q)

  (** val leb : n -> n -> bool **)

  let leb x y =
    match compare x y with
    | Gt -> false
    | _ -> true

  (** val to_nat : n -> nat **)

  let to_nat = function
  | N0 -> O
  | Npos p -> Pos.to_nat p
 end

(** val n_of_digits : bool list -> n **)

let rec n_of_digits = function
| [] -> N0
| b :: l' ->
  N.add (if b then Npos XH else N0) (N.mul (Npos (XO XH)) (n_of_digits l'))

(** val n_of_ascii : char -> n **)

let n_of_ascii a =
  (* If this appears, you're using Ascii internals. Please don't *)
 (fun f c ->
  let n = Char.code c in
  let h i = (n land (1 lsl i)) <> 0 in
  f (h 0) (h 1) (h 2) (h 3) (h 4) (h 5) (h 6) (h 7))
    (fun a0 a1 a2 a3 a4 a5 a6 a7 ->
    n_of_digits
      (a0 :: (a1 :: (a2 :: (a3 :: (a4 :: (a5 :: (a6 :: (a7 :: [])))))))))
    a

(** val nth_error : 'a1 list -> nat -> 'a1 option **)

let rec nth_error l = function
| O -> (match l with
        | [] -> None
        | x :: _ -> Some x)
| S n1 -> (match l with
           | [] -> None
           | _ :: l0 -> nth_error l0 n1)

(** val rev0 : 'a1 list -> 'a1 list **)

let rec rev0 = function
| [] -> []
| x :: l' -> app (rev0 l') (x :: [])

(** val map : ('a1 -> 'a2) -> 'a1 list -> 'a2 list **)

let rec map f = function
| [] -> []
| a :: t -> (f a) :: (map f t)

(** val flat_map : ('a1 -> 'a2 list) -> 'a1 list -> 'a2 list **)

let rec flat_map f = function
| [] -> []
| x :: t -> app (f x) (flat_map f t)

(** val fold_left : ('a1 -> 'a2 -> 'a1) -> 'a2 list -> 'a1 -> 'a1 **)

let rec fold_left f l a0 =
  match l with
  | [] -> a0
  | b :: t -> fold_left f t (f a0 b)

(** val forallb : ('a1 -> bool) -> 'a1 list -> bool **)

let rec forallb f = function
| [] -> true
| a :: l0 -> (&&) (f a) (forallb f l0)

(** val find : ('a1 -> bool) -> 'a1 list -> 'a1 option **)

let rec find f = function
| [] -> None
| x :: tl -> if f x then Some x else find f tl

(** val firstn : nat -> 'a1 list -> 'a1 list **)

let rec firstn n0 l =
  match n0 with
  | O -> []
  | S n1 -> (match l with
             | [] -> []
             | a :: l0 -> a :: (firstn n1 l0))

(** val skipn : nat -> 'a1 list -> 'a1 list **)

let rec skipn n0 l =
  match n0 with
  | O -> l
  | S n1 -> (match l with
             | [] -> []
             | _ :: l0 -> skipn n1 l0)

module Z =
 struct
  (** val opp : z -> z **)

  let opp = function
  | Z0 -> Z0
  | Zpos x0 -> Zneg x0
  | Zneg x0 -> Zpos x0

  (** val compare : z -> z -> comparison **)

  let compare x y =
    match x with
    | Z0 -> (match y with
             | Z0 -> Eq
             | Zpos _ -> Lt
             | Zneg _ -> Gt)
    | Zpos x' -> (match y with
                  | Zpos y' -> Pos.compare x' y'
                  | _ -> Gt)
    | Zneg x' ->
      (match y with
       | Zneg y' -> compOpp (Pos.compare x' y')
       | _ -> Lt)

  (** val ltb : z -> z -> bool **)

  let ltb x y =
    match compare x y with
    | Lt -> true
    | _ -> false

  (** val to_N : z -> n **)

  let to_N = function
  | Zpos p -> Npos p
  | _ -> N0

  (** val of_N : n -> z **)

  let of_N = function
  | N0 -> Z0
  | Npos p -> Zpos p

  (** val of_uint : uint -> z **)

  let of_uint d =
    of_N (Pos.of_uint d)

  (** val of_int : signed_int -> z **)

  let of_int = function
  | Pos d0 -> of_uint d0
  | Neg d0 -> opp (of_uint d0)

  (** val to_int : z -> signed_int **)

  let to_int = function
  | Z0 -> Pos (D0 Nil)
  | Zpos p -> Pos (Pos.to_uint p)
  | Zneg p -> Neg (Pos.to_uint p)
 end

(** val eqb0 : char list -> char list -> bool **)

let rec eqb0 s1 s2 =
  match s1 with
  | [] -> (match s2 with
           | [] -> true
           | _::_ -> false)
  | c1::s1' ->
    (match s2 with
     | [] -> false
     | c2::s2' -> if (=) c1 c2 then eqb0 s1' s2' else false)

(** val append : char list -> char list -> char list **)

let rec append s1 s2 =
  match s1 with
  | [] -> s2
  | c::s1' -> c::(append s1' s2)

(** val list_ascii_of_string : char list -> char list **)

let rec list_ascii_of_string = function
| [] -> []
| ch::s0 -> ch :: (list_ascii_of_string s0)

(** val uint_of_char : char -> uint option -> uint option **)

let uint_of_char a = function
| Some d0 ->
  (* If this appears, you're using Ascii internals. Please don't *)
 (fun f c ->
  let n = Char.code c in
  let h i = (n land (1 lsl i)) <> 0 in
  f (h 0) (h 1) (h 2) (h 3) (h 4) (h 5) (h 6) (h 7))
    (fun b b0 b1 b2 b3 b4 b5 b6 ->
    if b
    then if b0
         then if b1
              then if b2
                   then None
                   else if b3
                        then if b4
                             then if b5
                                  then None
                                  else if b6 then None else Some (D7 d0)
                             else None
                        else None
              else if b2
                   then None
                   else if b3
                        then if b4
                             then if b5
                                  then None
                                  else if b6 then None else Some (D3 d0)
                             else None
                        else None
         else if b1
              then if b2
                   then None
                   else if b3
                        then if b4
                             then if b5
                                  then None
                                  else if b6 then None else Some (D5 d0)
                             else None
                        else None
              else if b2
                   then if b3
                        then if b4
                             then if b5
                                  then None
                                  else if b6 then None else Some (D9 d0)
                             else None
                        else None
                   else if b3
                        then if b4
                             then if b5
                                  then None
                                  else if b6 then None else Some (D1 d0)
                             else None
                        else None
    else if b0
         then if b1
              then if b2
                   then None
                   else if b3
                        then if b4
                             then if b5
                                  then None
                                  else if b6 then None else Some (D6 d0)
                             else None
                        else None
              else if b2
                   then None
                   else if b3
                        then if b4
                             then if b5
                                  then None
                                  else if b6 then None else Some (D2 d0)
                             else None
                        else None
         else if b1
              then if b2
                   then None
                   else if b3
                        then if b4
                             then if b5
                                  then None
                                  else if b6 then None else Some (D4 d0)
                             else None
                        else None
              else if b2
                   then if b3
                        then if b4
                             then if b5
                                  then None
                                  else if b6 then None else Some (D8 d0)
                             else None
                        else None
                   else if b3
                        then if b4
                             then if b5
                                  then None
                                  else if b6 then None else Some (D0 d0)
                             else None
                        else None)
    a
| None -> None

module NilEmpty =
 struct
  (** val string_of_uint : uint -> char list **)

  let rec string_of_uint = function
  | Nil -> []
  | D0 d0 -> '0'::(string_of_uint d0)
  | D1 d0 -> '1'::(string_of_uint d0)
  | D2 d0 -> '2'::(string_of_uint d0)
  | D3 d0 -> '3'::(string_of_uint d0)
  | D4 d0 -> '4'::(string_of_uint d0)
  | D5 d0 -> '5'::(string_of_uint d0)
  | D6 d0 -> '6'::(string_of_uint d0)
  | D7 d0 -> '7'::(string_of_uint d0)
  | D8 d0 -> '8'::(string_of_uint d0)
  | D9 d0 -> '9'::(string_of_uint d0)

  (** val uint_of_string : char list -> uint option **)

  let rec uint_of_string = function
  | [] -> Some Nil
  | a::s0 -> uint_of_char a (uint_of_string s0)
 end

module NilZero =
 struct
  (** val string_of_uint : uint -> char list **)

  let string_of_uint d = match d with
  | Nil -> '0'::[]
  | _ -> NilEmpty.string_of_uint d

  (** val uint_of_string : char list -> uint option **)

  let uint_of_string s = match s with
  | [] -> None
  | _::_ -> NilEmpty.uint_of_string s

  (** val string_of_int : signed_int -> char list **)

  let string_of_int = function
  | Pos d0 -> string_of_uint d0
  | Neg d0 -> '-'::(string_of_uint d0)

  (** val int_of_string : char list -> signed_int option **)

  let int_of_string s = match s with
  | [] -> None
  | a::s' ->
    if (=) a '-'
    then option_map (fun x -> Neg x) (uint_of_string s')
    else option_map (fun x -> Pos x) (uint_of_string s)
 end

type sexp =
| A of char list
| L of sexp list

(** val z2s : z -> char list **)

let z2s z0 =
  NilZero.string_of_int (Z.to_int z0)

(** val s2z : char list -> z option **)

let s2z s =
  option_map Z.of_int (NilZero.int_of_string s)

(** val n2s : n -> char list **)

let n2s n0 =
  z2s (Z.of_N n0)

(** val s2n : char list -> n option **)

let s2n s =
  match s2z s with
  | Some z0 -> if Z.ltb z0 Z0 then None else Some (Z.to_N z0)
  | None -> None

(** val is_space : char -> bool **)

let is_space c =
  (* If this appears, you're using Ascii internals. Please don't *)
 (fun f c ->
  let n = Char.code c in
  let h i = (n land (1 lsl i)) <> 0 in
  f (h 0) (h 1) (h 2) (h 3) (h 4) (h 5) (h 6) (h 7))
    (fun b b0 b1 b2 b3 b4 b5 b6 ->
    if b
    then if b0
         then false
         else if b2
              then if b3
                   then false
                   else if b4
                        then false
                        else if b5 then false else if b6 then false else true
              else false
    else if b0
         then if b1
              then false
              else if b2
                   then if b3
                        then false
                        else if b4
                             then false
                             else if b5
                                  then false
                                  else if b6 then false else true
                   else false
         else if b1
              then false
              else if b2
                   then false
                   else if b3
                        then false
                        else if b4
                             then if b5
                                  then false
                                  else if b6 then false else true
                             else false)
    c

(** val string_of_rev : char list -> char list **)

let string_of_rev cs =
  fold_left (fun acc c -> c::acc) cs []

(** val flush : char list -> sexp list -> sexp list **)

let flush cur top =
  match cur with
  | [] -> top
  | _ :: _ -> (A (string_of_rev cur)) :: top

(** val read_sx :
    char list -> char list -> sexp list -> sexp list list -> sexp list option **)

let rec read_sx cs cur top stack =
  match cs with
  | [] ->
    (match stack with
     | [] -> Some (rev0 (flush cur top))
     | _ :: _ -> None)
  | c :: r ->
    if (=) c '('
    then read_sx r [] [] ((flush cur top) :: stack)
    else if (=) c ')'
         then (match stack with
               | [] -> None
               | up :: stack' ->
                 read_sx r [] ((L (rev0 (flush cur top))) :: up) stack')
         else if is_space c
              then read_sx r [] (flush cur top) stack
              else read_sx r (c :: cur) top stack

(** val parse_sexps : char list -> sexp list option **)

let parse_sexps s =
  read_sx (list_ascii_of_string s) [] [] []

(** val parse_sexp : char list -> sexp option **)

let parse_sexp s =
  match parse_sexps s with
  | Some l ->
    (match l with
     | [] -> None
     | x :: l0 -> (match l0 with
                   | [] -> Some x
                   | _ :: _ -> None))
  | None -> None

(** val print_sx : sexp -> char list -> char list **)

let rec print_sx x k =
  match x with
  | A s -> append s k
  | L l ->
    append ('('::[])
      (let rec go l0 first k0 =
         match l0 with
         | [] -> append (')'::[]) k0
         | y :: r ->
           append (if first then [] else ' '::[]) (print_sx y (go r false k0))
       in go l true k)

(** val sexp_to_string : sexp -> char list **)

let sexp_to_string x =
  print_sx x []

(** val mapM : ('a1 -> 'a2 option) -> 'a1 list -> 'a2 list option **)

let rec mapM f = function
| [] -> Some []
| x :: r ->
  (match f x with
   | Some y -> (match mapM f r with
                | Some ys -> Some (y :: ys)
                | None -> None)
   | None -> None)

(** val ident_of : sexp -> char list option **)

let ident_of = function
| A s0 ->
  (match s0 with
   | [] -> None
   | a::s ->
     (* If this appears, you're using Ascii internals. Please don't *)
 (fun f c ->
  let n = Char.code c in
  let h i = (n land (1 lsl i)) <> 0 in
  f (h 0) (h 1) (h 2) (h 3) (h 4) (h 5) (h 6) (h 7))
       (fun b b0 b1 b2 b3 b4 b5 b6 ->
       if b
       then if b0
            then if b1
                 then if b2
                      then None
                      else if b3
                           then None
                           else if b4
                                then if b5
                                     then None
                                     else if b6 then None else Some s
                                else None
                 else None
            else None
       else None)
       a)
| L _ -> None

(** val sx_ident : char list -> sexp **)

let sx_ident s =
  A ('\''::s)

(** val z_of : sexp -> z option **)

let z_of = function
| A s -> s2z s
| L _ -> None

(** val n_of : sexp -> n option **)

let n_of = function
| A s -> s2n s
| L _ -> None

(** val bool_of : sexp -> bool option **)

let bool_of = function
| A s ->
  (match s with
   | [] -> None
   | a::s0 ->
     (* If this appears, you're using Ascii internals. Please don't *)
 (fun f c ->
  let n = Char.code c in
  let h i = (n land (1 lsl i)) <> 0 in
  f (h 0) (h 1) (h 2) (h 3) (h 4) (h 5) (h 6) (h 7))
       (fun b b0 b1 b2 b3 b4 b5 b6 ->
       if b0
       then None
       else if b1
            then None
            else if b2
                 then None
                 else if b3
                      then if b4
                           then if b5
                                then None
                                else if b6
                                     then None
                                     else (match s0 with
                                           | [] -> Some b
                                           | _::_ -> None)
                           else None
                      else None)
       a)
| L _ -> None

(** val sx_bool : bool -> sexp **)

let sx_bool b =
  A (if b then '1'::[] else '0'::[])

(** val sx_z : z -> sexp **)

let sx_z z0 =
  A (z2s z0)

(** val sx_n : n -> sexp **)

let sx_n n0 =
  A (n2s n0)

(** val opt_of : (sexp -> 'a1 option) -> sexp -> 'a1 option option **)

let opt_of f = function
| A _ -> None
| L l ->
  (match l with
   | [] -> Some None
   | y :: l0 ->
     (match l0 with
      | [] -> option_map (fun x0 -> Some x0) (f y)
      | _ :: _ -> None))

(** val sx_opt : ('a1 -> sexp) -> 'a1 option -> sexp **)

let sx_opt f = function
| Some x -> L ((f x) :: [])
| None -> L []

(** val list_of : (sexp -> 'a1 option) -> sexp -> 'a1 list option **)

let list_of f = function
| A _ -> None
| L l -> mapM f l

(** val cps_of : sexp -> n list option **)

let cps_of x =
  list_of n_of x

(** val sx_cps : n list -> sexp **)

let sx_cps l =
  L (map sx_n l)

type ident = char list

type const =
| CNone
| CTrue
| CFalse
| CEllipsis
| CInt of z
| CFloat of n list
| CComplex of n list
| CStr of n list
| CBytes of n list

type binop =
| Add
| Sub
| Mult
| MatMult
| Div
| Mod
| Pow
| LShift
| RShift
| BitOr
| BitXor
| BitAnd
| FloorDiv

type unop =
| Invert
| Not
| UAdd
| USub

type boolop =
| And
| Or

type cmpop =
| Eq0
| NotEq
| Lt0
| LtE
| Gt0
| GtE
| Is
| IsNot
| In
| NotIn

type expr =
| Name of ident
| Constant of const
| JoinedStr of expr list
| FormattedValue of expr * z * expr option
| Starred of expr
| BinOp of expr * binop * expr
| BoolOp of boolop * expr list
| UnaryOp of unop * expr
| EList of expr list
| ETuple of expr list
| ESet of expr list
| EDict of expr option list * expr list
| Compare of expr * cmpop list * expr list
| Attribute of expr * ident
| Subscript of expr * expr
| Slice of expr option * expr option * expr option
| Call of expr * expr list * (ident option * expr) list
| NamedExpr of ident * expr
| Lambda of ident list * ident list * ident option * ident list
   * expr option list * ident option * expr list * expr
| ListComp of expr * (((expr * expr) * expr list) * bool) list
| SetComp of expr * (((expr * expr) * expr list) * bool) list
| GeneratorExp of expr * (((expr * expr) * expr list) * bool) list
| DictComp of expr * expr * (((expr * expr) * expr list) * bool) list
| IfExp of expr * expr * expr
| Yield of expr option
| YieldFrom of expr
| Await of expr
| Other of ident

type arguments = { a_posonly : ident list; a_args : ident list;
                   a_vararg : ident option; a_kwonly : ident list;
                   a_kw_defaults : expr option list; a_kwarg : ident option;
                   a_defaults : expr list }

type stmt =
| SExpr of expr
| SIf of expr * stmt list * stmt list
| SWhile of expr * stmt list * stmt list
| SFor of expr * expr * stmt list * stmt list
| SBreak
| SContinue
| SPass
| SAssign of expr list * expr
| SAnnAssign of expr * expr option
| SAugAssign of expr * binop * expr
| SFunctionDef of ident * z * arguments * stmt list * expr list
| SReturn of expr option
| SGlobal of ident list
| SNonlocal of ident list
| SClassDef of ident * z * expr list * (ident option * expr) list * stmt list
   * expr list
| SImport of (ident * ident option) list
| SImportFrom of ident option * (ident * ident option) list * z
| SUnsupported of ident

(** val binop_name : binop -> char list **)

let binop_name = function
| Add -> 'A'::('d'::('d'::[]))
| Sub -> 'S'::('u'::('b'::[]))
| Mult -> 'M'::('u'::('l'::('t'::[])))
| MatMult -> 'M'::('a'::('t'::('M'::('u'::('l'::('t'::[]))))))
| Div -> 'D'::('i'::('v'::[]))
| Mod -> 'M'::('o'::('d'::[]))
| Pow -> 'P'::('o'::('w'::[]))
| LShift -> 'L'::('S'::('h'::('i'::('f'::('t'::[])))))
| RShift -> 'R'::('S'::('h'::('i'::('f'::('t'::[])))))
| BitOr -> 'B'::('i'::('t'::('O'::('r'::[]))))
| BitXor -> 'B'::('i'::('t'::('X'::('o'::('r'::[])))))
| BitAnd -> 'B'::('i'::('t'::('A'::('n'::('d'::[])))))
| FloorDiv -> 'F'::('l'::('o'::('o'::('r'::('D'::('i'::('v'::[])))))))

(** val all_binops : binop list **)

let all_binops =
  Add :: (Sub :: (Mult :: (MatMult :: (Div :: (Mod :: (Pow :: (LShift :: (RShift :: (BitOr :: (BitXor :: (BitAnd :: (FloorDiv :: []))))))))))))

(** val unop_name : unop -> char list **)

let unop_name = function
| Invert -> 'I'::('n'::('v'::('e'::('r'::('t'::[])))))
| Not -> 'N'::('o'::('t'::[]))
| UAdd -> 'U'::('A'::('d'::('d'::[])))
| USub -> 'U'::('S'::('u'::('b'::[])))

(** val all_unops : unop list **)

let all_unops =
  Invert :: (Not :: (UAdd :: (USub :: [])))

(** val boolop_name : boolop -> char list **)

let boolop_name = function
| And -> 'A'::('n'::('d'::[]))
| Or -> 'O'::('r'::[])

(** val all_boolops : boolop list **)

let all_boolops =
  And :: (Or :: [])

(** val cmpop_name : cmpop -> char list **)

let cmpop_name = function
| Eq0 -> 'E'::('q'::[])
| NotEq -> 'N'::('o'::('t'::('E'::('q'::[]))))
| Lt0 -> 'L'::('t'::[])
| LtE -> 'L'::('t'::('E'::[]))
| Gt0 -> 'G'::('t'::[])
| GtE -> 'G'::('t'::('E'::[]))
| Is -> 'I'::('s'::[])
| IsNot -> 'I'::('s'::('N'::('o'::('t'::[]))))
| In -> 'I'::('n'::[])
| NotIn -> 'N'::('o'::('t'::('I'::('n'::[]))))

(** val all_cmpops : cmpop list **)

let all_cmpops =
  Eq0 :: (NotEq :: (Lt0 :: (LtE :: (Gt0 :: (GtE :: (Is :: (IsNot :: (In :: (NotIn :: [])))))))))

(** val find_by_name :
    ('a1 -> char list) -> 'a1 list -> char list -> 'a1 option **)

let find_by_name nm all s =
  find (fun x -> eqb0 (nm x) s) all

(** val sx_const : const -> sexp **)

let sx_const = function
| CNone -> L ((A ('N'::('o'::('n'::('e'::[]))))) :: [])
| CTrue -> L ((A ('T'::('r'::('u'::('e'::[]))))) :: [])
| CFalse -> L ((A ('F'::('a'::('l'::('s'::('e'::[])))))) :: [])
| CEllipsis ->
  L ((A ('E'::('l'::('l'::('i'::('p'::('s'::('i'::('s'::[]))))))))) :: [])
| CInt z0 -> L ((A ('i'::('n'::('t'::[])))) :: ((sx_z z0) :: []))
| CFloat r ->
  L ((A ('f'::('l'::('o'::('a'::('t'::[])))))) :: ((sx_cps r) :: []))
| CComplex r ->
  L ((A
    ('c'::('o'::('m'::('p'::('l'::('e'::('x'::[])))))))) :: ((sx_cps r) :: []))
| CStr s -> L ((A ('s'::('t'::('r'::[])))) :: ((sx_cps s) :: []))
| CBytes r ->
  L ((A ('b'::('y'::('t'::('e'::('s'::[])))))) :: ((sx_cps r) :: []))

(** val sx_expr : expr -> sexp **)

let rec sx_expr e =
  let sx_list = fun l -> L (map sx_expr l) in
  let sx_oe = fun o ->
    match o with
    | Some x -> L ((sx_expr x) :: [])
    | None -> L []
  in
  let sx_gens = fun gs -> L
    (map (fun g ->
      let (y, a) = g in
      let (y0, ifs) = y in
      let (t, i) = y0 in
      L ((sx_expr t) :: ((sx_expr i) :: ((L
      (map sx_expr ifs)) :: ((sx_bool a) :: []))))) gs)
  in
  (match e with
   | Name id ->
     L ((A ('N'::('a'::('m'::('e'::[]))))) :: ((sx_ident id) :: []))
   | Constant c ->
     L ((A
       ('C'::('o'::('n'::('s'::('t'::('a'::('n'::('t'::[]))))))))) :: (
       (sx_const c) :: []))
   | JoinedStr vs ->
     L ((A
       ('J'::('o'::('i'::('n'::('e'::('d'::('S'::('t'::('r'::[])))))))))) :: (
       (sx_list vs) :: []))
   | FormattedValue (v, c, f) ->
     L ((A
       ('F'::('o'::('r'::('m'::('a'::('t'::('t'::('e'::('d'::('V'::('a'::('l'::('u'::('e'::[]))))))))))))))) :: (
       (sx_expr v) :: ((sx_z c) :: ((sx_oe f) :: []))))
   | Starred v ->
     L ((A
       ('S'::('t'::('a'::('r'::('r'::('e'::('d'::[])))))))) :: ((sx_expr v) :: []))
   | BinOp (l, o, r) ->
     L ((A ('B'::('i'::('n'::('O'::('p'::[])))))) :: ((sx_expr l) :: ((A
       (binop_name o)) :: ((sx_expr r) :: []))))
   | BoolOp (o, vs) ->
     L ((A ('B'::('o'::('o'::('l'::('O'::('p'::[]))))))) :: ((A
       (boolop_name o)) :: ((sx_list vs) :: [])))
   | UnaryOp (o, v) ->
     L ((A ('U'::('n'::('a'::('r'::('y'::('O'::('p'::[])))))))) :: ((A
       (unop_name o)) :: ((sx_expr v) :: [])))
   | EList l -> L ((A ('L'::('i'::('s'::('t'::[]))))) :: ((sx_list l) :: []))
   | ETuple l ->
     L ((A ('T'::('u'::('p'::('l'::('e'::[])))))) :: ((sx_list l) :: []))
   | ESet l -> L ((A ('S'::('e'::('t'::[])))) :: ((sx_list l) :: []))
   | EDict (ks, vs) ->
     L ((A ('D'::('i'::('c'::('t'::[]))))) :: ((L
       (map sx_oe ks)) :: ((sx_list vs) :: [])))
   | Compare (l, ops, cs) ->
     L ((A
       ('C'::('o'::('m'::('p'::('a'::('r'::('e'::[])))))))) :: ((sx_expr l) :: ((L
       (map (fun o -> A (cmpop_name o)) ops)) :: ((sx_list cs) :: []))))
   | Attribute (v, a) ->
     L ((A
       ('A'::('t'::('t'::('r'::('i'::('b'::('u'::('t'::('e'::[])))))))))) :: (
       (sx_expr v) :: ((sx_ident a) :: [])))
   | Subscript (v, s) ->
     L ((A
       ('S'::('u'::('b'::('s'::('c'::('r'::('i'::('p'::('t'::[])))))))))) :: (
       (sx_expr v) :: ((sx_expr s) :: [])))
   | Slice (a, b, c) ->
     L ((A
       ('S'::('l'::('i'::('c'::('e'::[])))))) :: ((sx_oe a) :: ((sx_oe b) :: (
       (sx_oe c) :: []))))
   | Call (f, args, kws) ->
     L ((A
       ('C'::('a'::('l'::('l'::[]))))) :: ((sx_expr f) :: ((sx_list args) :: ((L
       (map (fun kw ->
         let (k, v) = kw in L ((sx_opt sx_ident k) :: ((sx_expr v) :: [])))
         kws)) :: []))))
   | NamedExpr (t, v) ->
     L ((A
       ('N'::('a'::('m'::('e'::('d'::('E'::('x'::('p'::('r'::[])))))))))) :: (
       (sx_ident t) :: ((sx_expr v) :: [])))
   | Lambda (po, ar, va, ko, kd, kw, de, body) ->
     L ((A ('L'::('a'::('m'::('b'::('d'::('a'::[]))))))) :: ((L
       (map sx_ident po)) :: ((L
       (map sx_ident ar)) :: ((sx_opt sx_ident va) :: ((L
       (map sx_ident ko)) :: ((L
       (map sx_oe kd)) :: ((sx_opt sx_ident kw) :: ((sx_list de) :: (
       (sx_expr body) :: [])))))))))
   | ListComp (e0, gs) ->
     L ((A
       ('L'::('i'::('s'::('t'::('C'::('o'::('m'::('p'::[]))))))))) :: (
       (sx_expr e0) :: ((sx_gens gs) :: [])))
   | SetComp (e0, gs) ->
     L ((A
       ('S'::('e'::('t'::('C'::('o'::('m'::('p'::[])))))))) :: ((sx_expr e0) :: (
       (sx_gens gs) :: [])))
   | GeneratorExp (e0, gs) ->
     L ((A
       ('G'::('e'::('n'::('e'::('r'::('a'::('t'::('o'::('r'::('E'::('x'::('p'::[]))))))))))))) :: (
       (sx_expr e0) :: ((sx_gens gs) :: [])))
   | DictComp (k, v, gs) ->
     L ((A
       ('D'::('i'::('c'::('t'::('C'::('o'::('m'::('p'::[]))))))))) :: (
       (sx_expr k) :: ((sx_expr v) :: ((sx_gens gs) :: []))))
   | IfExp (t, b, o) ->
     L ((A
       ('I'::('f'::('E'::('x'::('p'::[])))))) :: ((sx_expr t) :: ((sx_expr b) :: (
       (sx_expr o) :: []))))
   | Yield v ->
     L ((A ('Y'::('i'::('e'::('l'::('d'::[])))))) :: ((sx_oe v) :: []))
   | YieldFrom v ->
     L ((A
       ('Y'::('i'::('e'::('l'::('d'::('F'::('r'::('o'::('m'::[])))))))))) :: (
       (sx_expr v) :: []))
   | Await v ->
     L ((A ('A'::('w'::('a'::('i'::('t'::[])))))) :: ((sx_expr v) :: []))
   | Other k ->
     L ((A ('O'::('t'::('h'::('e'::('r'::[])))))) :: ((sx_ident k) :: [])))

(** val const_of : sexp -> const option **)

let const_of = function
| A _ -> None
| L l ->
  (match l with
   | [] -> None
   | s :: l0 ->
     (match s with
      | A t ->
        (match l0 with
         | [] ->
           if eqb0 t ('N'::('o'::('n'::('e'::[]))))
           then Some CNone
           else if eqb0 t ('T'::('r'::('u'::('e'::[]))))
                then Some CTrue
                else if eqb0 t ('F'::('a'::('l'::('s'::('e'::[])))))
                     then Some CFalse
                     else if eqb0 t
                               ('E'::('l'::('l'::('i'::('p'::('s'::('i'::('s'::[]))))))))
                          then Some CEllipsis
                          else None
         | v :: l1 ->
           (match l1 with
            | [] ->
              if eqb0 t ('i'::('n'::('t'::[])))
              then option_map (fun x0 -> CInt x0) (z_of v)
              else if eqb0 t ('f'::('l'::('o'::('a'::('t'::[])))))
                   then option_map (fun x0 -> CFloat x0) (cps_of v)
                   else if eqb0 t
                             ('c'::('o'::('m'::('p'::('l'::('e'::('x'::[])))))))
                        then option_map (fun x0 -> CComplex x0) (cps_of v)
                        else if eqb0 t ('s'::('t'::('r'::[])))
                             then option_map (fun x0 -> CStr x0) (cps_of v)
                             else if eqb0 t
                                       ('b'::('y'::('t'::('e'::('s'::[])))))
                                  then option_map (fun x0 -> CBytes x0)
                                         (cps_of v)
                                  else None
            | _ :: _ -> None))
      | L _ -> None))

(** val bind : 'a1 option -> ('a1 -> 'a2 option) -> 'a2 option **)

let bind o f =
  match o with
  | Some x -> f x
  | None -> None

(** val expr_of : sexp -> expr option **)

let rec expr_of x =
  let list_e = fun y -> match y with
                        | A _ -> None
                        | L l -> mapM expr_of l in
  let opt_e = fun y ->
    match y with
    | A _ -> None
    | L l ->
      (match l with
       | [] -> Some None
       | z0 :: l0 ->
         (match l0 with
          | [] -> option_map (fun x0 -> Some x0) (expr_of z0)
          | _ :: _ -> None))
  in
  let gens_of = fun y ->
    match y with
    | A _ -> None
    | L gs ->
      mapM (fun g ->
        match g with
        | A _ -> None
        | L l ->
          (match l with
           | [] -> None
           | t :: l0 ->
             (match l0 with
              | [] -> None
              | i :: l1 ->
                (match l1 with
                 | [] -> None
                 | s :: l2 ->
                   (match s with
                    | A _ -> None
                    | L ifs ->
                      (match l2 with
                       | [] -> None
                       | a :: l3 ->
                         (match l3 with
                          | [] ->
                            bind (expr_of t) (fun t' ->
                              bind (expr_of i) (fun i' ->
                                bind (mapM expr_of ifs) (fun ifs' ->
                                  bind (bool_of a) (fun a' -> Some (((t',
                                    i'), ifs'), a')))))
                          | _ :: _ -> None))))))) gs
  in
  (match x with
   | A _ -> None
   | L l ->
     (match l with
      | [] -> None
      | s :: rest ->
        (match s with
         | A t ->
           if eqb0 t ('N'::('a'::('m'::('e'::[]))))
           then (match rest with
                 | [] -> None
                 | i :: l0 ->
                   (match l0 with
                    | [] -> option_map (fun x0 -> Name x0) (ident_of i)
                    | _ :: _ -> None))
           else if eqb0 t
                     ('C'::('o'::('n'::('s'::('t'::('a'::('n'::('t'::[]))))))))
                then (match rest with
                      | [] -> None
                      | c :: l0 ->
                        (match l0 with
                         | [] ->
                           option_map (fun x0 -> Constant x0) (const_of c)
                         | _ :: _ -> None))
                else if eqb0 t
                          ('J'::('o'::('i'::('n'::('e'::('d'::('S'::('t'::('r'::[])))))))))
                     then (match rest with
                           | [] -> None
                           | l0 :: l1 ->
                             (match l1 with
                              | [] ->
                                option_map (fun x0 -> JoinedStr x0)
                                  (list_e l0)
                              | _ :: _ -> None))
                     else if eqb0 t
                               ('F'::('o'::('r'::('m'::('a'::('t'::('t'::('e'::('d'::('V'::('a'::('l'::('u'::('e'::[]))))))))))))))
                          then (match rest with
                                | [] -> None
                                | v :: l0 ->
                                  (match l0 with
                                   | [] -> None
                                   | c :: l1 ->
                                     (match l1 with
                                      | [] -> None
                                      | f :: l2 ->
                                        (match l2 with
                                         | [] ->
                                           bind (expr_of v) (fun v' ->
                                             bind (z_of c) (fun c' ->
                                               bind (opt_e f) (fun f' -> Some
                                                 (FormattedValue (v', c',
                                                 f')))))
                                         | _ :: _ -> None))))
                          else if eqb0 t
                                    ('S'::('t'::('a'::('r'::('r'::('e'::('d'::[])))))))
                               then (match rest with
                                     | [] -> None
                                     | v :: l0 ->
                                       (match l0 with
                                        | [] ->
                                          option_map (fun x0 -> Starred x0)
                                            (expr_of v)
                                        | _ :: _ -> None))
                               else if eqb0 t
                                         ('B'::('i'::('n'::('O'::('p'::[])))))
                                    then (match rest with
                                          | [] -> None
                                          | l0 :: l1 ->
                                            (match l1 with
                                             | [] -> None
                                             | s0 :: l2 ->
                                               (match s0 with
                                                | A o ->
                                                  (match l2 with
                                                   | [] -> None
                                                   | r :: l3 ->
                                                     (match l3 with
                                                      | [] ->
                                                        bind (expr_of l0)
                                                          (fun l' ->
                                                          bind
                                                            (find_by_name
                                                              binop_name
                                                              all_binops o)
                                                            (fun o' ->
                                                            bind (expr_of r)
                                                              (fun r' -> Some
                                                              (BinOp (l', o',
                                                              r')))))
                                                      | _ :: _ -> None))
                                                | L _ -> None)))
                                    else if eqb0 t
                                              ('B'::('o'::('o'::('l'::('O'::('p'::[]))))))
                                         then (match rest with
                                               | [] -> None
                                               | s0 :: l0 ->
                                                 (match s0 with
                                                  | A o ->
                                                    (match l0 with
                                                     | [] -> None
                                                     | l1 :: l2 ->
                                                       (match l2 with
                                                        | [] ->
                                                          bind
                                                            (find_by_name
                                                              boolop_name
                                                              all_boolops o)
                                                            (fun o' ->
                                                            bind (list_e l1)
                                                              (fun l' -> Some
                                                              (BoolOp (o',
                                                              l'))))
                                                        | _ :: _ -> None))
                                                  | L _ -> None))
                                         else if eqb0 t
                                                   ('U'::('n'::('a'::('r'::('y'::('O'::('p'::[])))))))
                                              then (match rest with
                                                    | [] -> None
                                                    | s0 :: l0 ->
                                                      (match s0 with
                                                       | A o ->
                                                         (match l0 with
                                                          | [] -> None
                                                          | v :: l1 ->
                                                            (match l1 with
                                                             | [] ->
                                                               bind
                                                                 (find_by_name
                                                                   unop_name
                                                                   all_unops
                                                                   o)
                                                                 (fun o' ->
                                                                 bind
                                                                   (expr_of v)
                                                                   (fun v' ->
                                                                   Some
                                                                   (UnaryOp
                                                                   (o', v'))))
                                                             | _ :: _ -> None))
                                                       | L _ -> None))
                                              else if eqb0 t
                                                        ('L'::('i'::('s'::('t'::[]))))
                                                   then (match rest with
                                                         | [] -> None
                                                         | l0 :: l1 ->
                                                           (match l1 with
                                                            | [] ->
                                                              option_map
                                                                (fun x0 ->
                                                                EList x0)
                                                                (list_e l0)
                                                            | _ :: _ -> None))
                                                   else if eqb0 t
                                                             ('T'::('u'::('p'::('l'::('e'::[])))))
                                                        then (match rest with
                                                              | [] -> None
                                                              | l0 :: l1 ->
                                                                (match l1 with
                                                                 | [] ->
                                                                   option_map
                                                                    (fun x0 ->
                                                                    ETuple
                                                                    x0)
                                                                    (list_e
                                                                    l0)
                                                                 | _ :: _ ->
                                                                   None))
                                                        else if eqb0 t
                                                                  ('S'::('e'::('t'::[])))
                                                             then (match rest with
                                                                   | [] ->
                                                                    None
                                                                   | l0 :: l1 ->
                                                                    (match l1 with
                                                                    | [] ->
                                                                    option_map
                                                                    (fun x0 ->
                                                                    ESet x0)
                                                                    (list_e
                                                                    l0)
                                                                    | _ :: _ ->
                                                                    None))
                                                             else if 
                                                                    eqb0 t
                                                                    ('D'::('i'::('c'::('t'::[]))))
                                                                  then 
                                                                    (match rest with
                                                                    | [] ->
                                                                    None
                                                                    | s0 :: l0 ->
                                                                    (match s0 with
                                                                    | A _ ->
                                                                    None
                                                                    | L ks ->
                                                                    (match l0 with
                                                                    | [] ->
                                                                    None
                                                                    | vs :: l1 ->
                                                                    (match l1 with
                                                                    | [] ->
                                                                    bind
                                                                    (mapM
                                                                    opt_e ks)
                                                                    (fun ks' ->
                                                                    bind
                                                                    (list_e
                                                                    vs)
                                                                    (fun vs' ->
                                                                    Some
                                                                    (EDict
                                                                    (ks',
                                                                    vs'))))
                                                                    | _ :: _ ->
                                                                    None))))
                                                                  else 
                                                                    if 
                                                                    eqb0 t
                                                                    ('C'::('o'::('m'::('p'::('a'::('r'::('e'::[])))))))
                                                                    then 
                                                                    (match rest with
                                                                    | [] ->
                                                                    None
                                                                    | l0 :: l1 ->
                                                                    (match l1 with
                                                                    | [] ->
                                                                    None
                                                                    | s0 :: l2 ->
                                                                    (match s0 with
                                                                    | A _ ->
                                                                    None
                                                                    | L ops ->
                                                                    (match l2 with
                                                                    | [] ->
                                                                    None
                                                                    | cs :: l3 ->
                                                                    (match l3 with
                                                                    | [] ->
                                                                    bind
                                                                    (expr_of
                                                                    l0)
                                                                    (fun l' ->
                                                                    bind
                                                                    (mapM
                                                                    (fun o ->
                                                                    match o with
                                                                    | A s1 ->
                                                                    find_by_name
                                                                    cmpop_name
                                                                    all_cmpops
                                                                    s1
                                                                    | L _ ->
                                                                    None) ops)
                                                                    (fun ops' ->
                                                                    bind
                                                                    (list_e
                                                                    cs)
                                                                    (fun cs' ->
                                                                    Some
                                                                    (Compare
                                                                    (l',
                                                                    ops',
                                                                    cs')))))
                                                                    | _ :: _ ->
                                                                    None)))))
                                                                    else 
                                                                    if 
                                                                    eqb0 t
                                                                    ('A'::('t'::('t'::('r'::('i'::('b'::('u'::('t'::('e'::[])))))))))
                                                                    then 
                                                                    (match rest with
                                                                    | [] ->
                                                                    None
                                                                    | v :: l0 ->
                                                                    (match l0 with
                                                                    | [] ->
                                                                    None
                                                                    | a :: l1 ->
                                                                    (match l1 with
                                                                    | [] ->
                                                                    bind
                                                                    (expr_of
                                                                    v)
                                                                    (fun v' ->
                                                                    bind
                                                                    (ident_of
                                                                    a)
                                                                    (fun a' ->
                                                                    Some
                                                                    (Attribute
                                                                    (v', a'))))
                                                                    | _ :: _ ->
                                                                    None)))
                                                                    else 
                                                                    if 
                                                                    eqb0 t
                                                                    ('S'::('u'::('b'::('s'::('c'::('r'::('i'::('p'::('t'::[])))))))))
                                                                    then 
                                                                    (match rest with
                                                                    | [] ->
                                                                    None
                                                                    | v :: l0 ->
                                                                    (match l0 with
                                                                    | [] ->
                                                                    None
                                                                    | s0 :: l1 ->
                                                                    (match l1 with
                                                                    | [] ->
                                                                    bind
                                                                    (expr_of
                                                                    v)
                                                                    (fun v' ->
                                                                    bind
                                                                    (expr_of
                                                                    s0)
                                                                    (fun s' ->
                                                                    Some
                                                                    (Subscript
                                                                    (v', s'))))
                                                                    | _ :: _ ->
                                                                    None)))
                                                                    else 
                                                                    if 
                                                                    eqb0 t
                                                                    ('S'::('l'::('i'::('c'::('e'::[])))))
                                                                    then 
                                                                    (match rest with
                                                                    | [] ->
                                                                    None
                                                                    | a :: l0 ->
                                                                    (match l0 with
                                                                    | [] ->
                                                                    None
                                                                    | b :: l1 ->
                                                                    (match l1 with
                                                                    | [] ->
                                                                    None
                                                                    | c :: l2 ->
                                                                    (match l2 with
                                                                    | [] ->
                                                                    bind
                                                                    (opt_e a)
                                                                    (fun a' ->
                                                                    bind
                                                                    (opt_e b)
                                                                    (fun b' ->
                                                                    bind
                                                                    (opt_e c)
                                                                    (fun c' ->
                                                                    Some
                                                                    (Slice
                                                                    (a', b',
                                                                    c')))))
                                                                    | _ :: _ ->
                                                                    None))))
                                                                    else 
                                                                    if 
                                                                    eqb0 t
                                                                    ('C'::('a'::('l'::('l'::[]))))
                                                                    then 
                                                                    (match rest with
                                                                    | [] ->
                                                                    None
                                                                    | f :: l0 ->
                                                                    (match l0 with
                                                                    | [] ->
                                                                    None
                                                                    | args :: l1 ->
                                                                    (match l1 with
                                                                    | [] ->
                                                                    None
                                                                    | s0 :: l2 ->
                                                                    (match s0 with
                                                                    | A _ ->
                                                                    None
                                                                    | L kws ->
                                                                    (match l2 with
                                                                    | [] ->
                                                                    bind
                                                                    (expr_of
                                                                    f)
                                                                    (fun f' ->
                                                                    bind
                                                                    (list_e
                                                                    args)
                                                                    (fun args' ->
                                                                    bind
                                                                    (mapM
                                                                    (fun kw ->
                                                                    match kw with
                                                                    | A _ ->
                                                                    None
                                                                    | L l3 ->
                                                                    (match l3 with
                                                                    | [] ->
                                                                    None
                                                                    | k :: l4 ->
                                                                    (match l4 with
                                                                    | [] ->
                                                                    None
                                                                    | v :: l5 ->
                                                                    (match l5 with
                                                                    | [] ->
                                                                    bind
                                                                    (opt_of
                                                                    ident_of
                                                                    k)
                                                                    (fun k' ->
                                                                    bind
                                                                    (expr_of
                                                                    v)
                                                                    (fun v' ->
                                                                    Some (k',
                                                                    v')))
                                                                    | _ :: _ ->
                                                                    None))))
                                                                    kws)
                                                                    (fun kws' ->
                                                                    Some
                                                                    (Call
                                                                    (f',
                                                                    args',
                                                                    kws')))))
                                                                    | _ :: _ ->
                                                                    None)))))
                                                                    else 
                                                                    if 
                                                                    eqb0 t
                                                                    ('N'::('a'::('m'::('e'::('d'::('E'::('x'::('p'::('r'::[])))))))))
                                                                    then 
                                                                    (match rest with
                                                                    | [] ->
                                                                    None
                                                                    | i :: l0 ->
                                                                    (match l0 with
                                                                    | [] ->
                                                                    None
                                                                    | v :: l1 ->
                                                                    (match l1 with
                                                                    | [] ->
                                                                    bind
                                                                    (ident_of
                                                                    i)
                                                                    (fun i' ->
                                                                    bind
                                                                    (expr_of
                                                                    v)
                                                                    (fun v' ->
                                                                    Some
                                                                    (NamedExpr
                                                                    (i', v'))))
                                                                    | _ :: _ ->
                                                                    None)))
                                                                    else 
                                                                    if 
                                                                    eqb0 t
                                                                    ('L'::('a'::('m'::('b'::('d'::('a'::[]))))))
                                                                    then 
                                                                    (match rest with
                                                                    | [] ->
                                                                    None
                                                                    | s0 :: l0 ->
                                                                    (match s0 with
                                                                    | A _ ->
                                                                    None
                                                                    | L po ->
                                                                    (match l0 with
                                                                    | [] ->
                                                                    None
                                                                    | s1 :: l1 ->
                                                                    (match s1 with
                                                                    | A _ ->
                                                                    None
                                                                    | L ar ->
                                                                    (match l1 with
                                                                    | [] ->
                                                                    None
                                                                    | va :: l2 ->
                                                                    (match l2 with
                                                                    | [] ->
                                                                    None
                                                                    | s2 :: l3 ->
                                                                    (match s2 with
                                                                    | A _ ->
                                                                    None
                                                                    | L ko ->
                                                                    (match l3 with
                                                                    | [] ->
                                                                    None
                                                                    | s3 :: l4 ->
                                                                    (match s3 with
                                                                    | A _ ->
                                                                    None
                                                                    | L kd ->
                                                                    (match l4 with
                                                                    | [] ->
                                                                    None
                                                                    | kw :: l5 ->
                                                                    (match l5 with
                                                                    | [] ->
                                                                    None
                                                                    | de :: l6 ->
                                                                    (match l6 with
                                                                    | [] ->
                                                                    None
                                                                    | body :: l7 ->
                                                                    (match l7 with
                                                                    | [] ->
                                                                    bind
                                                                    (mapM
                                                                    ident_of
                                                                    po)
                                                                    (fun po' ->
                                                                    bind
                                                                    (mapM
                                                                    ident_of
                                                                    ar)
                                                                    (fun ar' ->
                                                                    bind
                                                                    (opt_of
                                                                    ident_of
                                                                    va)
                                                                    (fun va' ->
                                                                    bind
                                                                    (mapM
                                                                    ident_of
                                                                    ko)
                                                                    (fun ko' ->
                                                                    bind
                                                                    (mapM
                                                                    opt_e kd)
                                                                    (fun kd' ->
                                                                    bind
                                                                    (opt_of
                                                                    ident_of
                                                                    kw)
                                                                    (fun kw' ->
                                                                    bind
                                                                    (list_e
                                                                    de)
                                                                    (fun de' ->
                                                                    bind
                                                                    (expr_of
                                                                    body)
                                                                    (fun body' ->
                                                                    Some
                                                                    (Lambda
                                                                    (po',
                                                                    ar', va',
                                                                    ko', kd',
                                                                    kw', de',
                                                                    body'))))))))))
                                                                    | _ :: _ ->
                                                                    None)))))))))))))
                                                                    else 
                                                                    if 
                                                                    eqb0 t
                                                                    ('L'::('i'::('s'::('t'::('C'::('o'::('m'::('p'::[]))))))))
                                                                    then 
                                                                    (match rest with
                                                                    | [] ->
                                                                    None
                                                                    | e :: l0 ->
                                                                    (match l0 with
                                                                    | [] ->
                                                                    None
                                                                    | gs :: l1 ->
                                                                    (match l1 with
                                                                    | [] ->
                                                                    bind
                                                                    (expr_of
                                                                    e)
                                                                    (fun e' ->
                                                                    bind
                                                                    (gens_of
                                                                    gs)
                                                                    (fun gs' ->
                                                                    Some
                                                                    (ListComp
                                                                    (e',
                                                                    gs'))))
                                                                    | _ :: _ ->
                                                                    None)))
                                                                    else 
                                                                    if 
                                                                    eqb0 t
                                                                    ('S'::('e'::('t'::('C'::('o'::('m'::('p'::[])))))))
                                                                    then 
                                                                    (match rest with
                                                                    | [] ->
                                                                    None
                                                                    | e :: l0 ->
                                                                    (match l0 with
                                                                    | [] ->
                                                                    None
                                                                    | gs :: l1 ->
                                                                    (match l1 with
                                                                    | [] ->
                                                                    bind
                                                                    (expr_of
                                                                    e)
                                                                    (fun e' ->
                                                                    bind
                                                                    (gens_of
                                                                    gs)
                                                                    (fun gs' ->
                                                                    Some
                                                                    (SetComp
                                                                    (e',
                                                                    gs'))))
                                                                    | _ :: _ ->
                                                                    None)))
                                                                    else 
                                                                    if 
                                                                    eqb0 t
                                                                    ('G'::('e'::('n'::('e'::('r'::('a'::('t'::('o'::('r'::('E'::('x'::('p'::[]))))))))))))
                                                                    then 
                                                                    (match rest with
                                                                    | [] ->
                                                                    None
                                                                    | e :: l0 ->
                                                                    (match l0 with
                                                                    | [] ->
                                                                    None
                                                                    | gs :: l1 ->
                                                                    (match l1 with
                                                                    | [] ->
                                                                    bind
                                                                    (expr_of
                                                                    e)
                                                                    (fun e' ->
                                                                    bind
                                                                    (gens_of
                                                                    gs)
                                                                    (fun gs' ->
                                                                    Some
                                                                    (GeneratorExp
                                                                    (e',
                                                                    gs'))))
                                                                    | _ :: _ ->
                                                                    None)))
                                                                    else 
                                                                    if 
                                                                    eqb0 t
                                                                    ('D'::('i'::('c'::('t'::('C'::('o'::('m'::('p'::[]))))))))
                                                                    then 
                                                                    (match rest with
                                                                    | [] ->
                                                                    None
                                                                    | k :: l0 ->
                                                                    (match l0 with
                                                                    | [] ->
                                                                    None
                                                                    | v :: l1 ->
                                                                    (match l1 with
                                                                    | [] ->
                                                                    None
                                                                    | gs :: l2 ->
                                                                    (match l2 with
                                                                    | [] ->
                                                                    bind
                                                                    (expr_of
                                                                    k)
                                                                    (fun k' ->
                                                                    bind
                                                                    (expr_of
                                                                    v)
                                                                    (fun v' ->
                                                                    bind
                                                                    (gens_of
                                                                    gs)
                                                                    (fun gs' ->
                                                                    Some
                                                                    (DictComp
                                                                    (k', v',
                                                                    gs')))))
                                                                    | _ :: _ ->
                                                                    None))))
                                                                    else 
                                                                    if 
                                                                    eqb0 t
                                                                    ('I'::('f'::('E'::('x'::('p'::[])))))
                                                                    then 
                                                                    (match rest with
                                                                    | [] ->
                                                                    None
                                                                    | a :: l0 ->
                                                                    (match l0 with
                                                                    | [] ->
                                                                    None
                                                                    | b :: l1 ->
                                                                    (match l1 with
                                                                    | [] ->
                                                                    None
                                                                    | c :: l2 ->
                                                                    (match l2 with
                                                                    | [] ->
                                                                    bind
                                                                    (expr_of
                                                                    a)
                                                                    (fun a' ->
                                                                    bind
                                                                    (expr_of
                                                                    b)
                                                                    (fun b' ->
                                                                    bind
                                                                    (expr_of
                                                                    c)
                                                                    (fun c' ->
                                                                    Some
                                                                    (IfExp
                                                                    (a', b',
                                                                    c')))))
                                                                    | _ :: _ ->
                                                                    None))))
                                                                    else 
                                                                    if 
                                                                    eqb0 t
                                                                    ('Y'::('i'::('e'::('l'::('d'::[])))))
                                                                    then 
                                                                    (match rest with
                                                                    | [] ->
                                                                    None
                                                                    | v :: l0 ->
                                                                    (match l0 with
                                                                    | [] ->
                                                                    option_map
                                                                    (fun x0 ->
                                                                    Yield x0)
                                                                    (opt_e v)
                                                                    | _ :: _ ->
                                                                    None))
                                                                    else 
                                                                    if 
                                                                    eqb0 t
                                                                    ('Y'::('i'::('e'::('l'::('d'::('F'::('r'::('o'::('m'::[])))))))))
                                                                    then 
                                                                    (match rest with
                                                                    | [] ->
                                                                    None
                                                                    | v :: l0 ->
                                                                    (match l0 with
                                                                    | [] ->
                                                                    option_map
                                                                    (fun x0 ->
                                                                    YieldFrom
                                                                    x0)
                                                                    (expr_of
                                                                    v)
                                                                    | _ :: _ ->
                                                                    None))
                                                                    else 
                                                                    if 
                                                                    eqb0 t
                                                                    ('A'::('w'::('a'::('i'::('t'::[])))))
                                                                    then 
                                                                    (match rest with
                                                                    | [] ->
                                                                    None
                                                                    | v :: l0 ->
                                                                    (match l0 with
                                                                    | [] ->
                                                                    option_map
                                                                    (fun x0 ->
                                                                    Await x0)
                                                                    (expr_of
                                                                    v)
                                                                    | _ :: _ ->
                                                                    None))
                                                                    else 
                                                                    if 
                                                                    eqb0 t
                                                                    ('O'::('t'::('h'::('e'::('r'::[])))))
                                                                    then 
                                                                    (match rest with
                                                                    | [] ->
                                                                    None
                                                                    | k :: l0 ->
                                                                    (match l0 with
                                                                    | [] ->
                                                                    option_map
                                                                    (fun x0 ->
                                                                    Other x0)
                                                                    (ident_of
                                                                    k)
                                                                    | _ :: _ ->
                                                                    None))
                                                                    else None
         | L _ -> None)))

(** val alias_of : sexp -> (ident * ident option) option **)

let alias_of = function
| A _ -> None
| L l ->
  (match l with
   | [] -> None
   | n0 :: l0 ->
     (match l0 with
      | [] -> None
      | a :: l1 ->
        (match l1 with
         | [] ->
           bind (ident_of n0) (fun n' ->
             bind (opt_of ident_of a) (fun a' -> Some (n', a')))
         | _ :: _ -> None)))

(** val kws_of : sexp -> (ident option * expr) list option **)

let kws_of = function
| A _ -> None
| L kws ->
  mapM (fun kw ->
    match kw with
    | A _ -> None
    | L l ->
      (match l with
       | [] -> None
       | k :: l0 ->
         (match l0 with
          | [] -> None
          | v :: l1 ->
            (match l1 with
             | [] ->
               bind (opt_of ident_of k) (fun k' ->
                 bind (expr_of v) (fun v' -> Some (k', v')))
             | _ :: _ -> None)))) kws

(** val args_of : sexp -> arguments option **)

let args_of = function
| A _ -> None
| L l ->
  (match l with
   | [] -> None
   | s :: l0 ->
     (match s with
      | A _ -> None
      | L po ->
        (match l0 with
         | [] -> None
         | s0 :: l1 ->
           (match s0 with
            | A _ -> None
            | L ar ->
              (match l1 with
               | [] -> None
               | va :: l2 ->
                 (match l2 with
                  | [] -> None
                  | s1 :: l3 ->
                    (match s1 with
                     | A _ -> None
                     | L ko ->
                       (match l3 with
                        | [] -> None
                        | s2 :: l4 ->
                          (match s2 with
                           | A _ -> None
                           | L kd ->
                             (match l4 with
                              | [] -> None
                              | kw :: l5 ->
                                (match l5 with
                                 | [] -> None
                                 | s3 :: l6 ->
                                   (match s3 with
                                    | A _ -> None
                                    | L de ->
                                      (match l6 with
                                       | [] ->
                                         bind (mapM ident_of po) (fun po' ->
                                           bind (mapM ident_of ar)
                                             (fun ar' ->
                                             bind (opt_of ident_of va)
                                               (fun va' ->
                                               bind (mapM ident_of ko)
                                                 (fun ko' ->
                                                 bind
                                                   (mapM (opt_of expr_of) kd)
                                                   (fun kd' ->
                                                   bind (opt_of ident_of kw)
                                                     (fun kw' ->
                                                     bind (mapM expr_of de)
                                                       (fun de' -> Some
                                                       { a_posonly = po';
                                                       a_args = ar';
                                                       a_vararg = va';
                                                       a_kwonly = ko';
                                                       a_kw_defaults = kd';
                                                       a_kwarg = kw';
                                                       a_defaults = de' })))))))
                                       | _ :: _ -> None)))))))))))))

(** val stmt_of : sexp -> stmt option **)

let rec stmt_of x =
  let block = fun y -> match y with
                       | A _ -> None
                       | L l -> mapM stmt_of l in
  (match x with
   | A _ -> None
   | L l ->
     (match l with
      | [] -> None
      | s :: rest ->
        (match s with
         | A t ->
           if eqb0 t ('E'::('x'::('p'::('r'::[]))))
           then (match rest with
                 | [] -> None
                 | e :: l0 ->
                   (match l0 with
                    | [] -> option_map (fun x0 -> SExpr x0) (expr_of e)
                    | _ :: _ -> None))
           else if eqb0 t ('I'::('f'::[]))
                then (match rest with
                      | [] -> None
                      | c :: l0 ->
                        (match l0 with
                         | [] -> None
                         | b :: l1 ->
                           (match l1 with
                            | [] -> None
                            | o :: l2 ->
                              (match l2 with
                               | [] ->
                                 bind (expr_of c) (fun c' ->
                                   bind (block b) (fun b' ->
                                     bind (block o) (fun o' -> Some (SIf (c',
                                       b', o')))))
                               | _ :: _ -> None))))
                else if eqb0 t ('W'::('h'::('i'::('l'::('e'::[])))))
                     then (match rest with
                           | [] -> None
                           | c :: l0 ->
                             (match l0 with
                              | [] -> None
                              | b :: l1 ->
                                (match l1 with
                                 | [] -> None
                                 | o :: l2 ->
                                   (match l2 with
                                    | [] ->
                                      bind (expr_of c) (fun c' ->
                                        bind (block b) (fun b' ->
                                          bind (block o) (fun o' -> Some
                                            (SWhile (c', b', o')))))
                                    | _ :: _ -> None))))
                     else if eqb0 t ('F'::('o'::('r'::[])))
                          then (match rest with
                                | [] -> None
                                | tg :: l0 ->
                                  (match l0 with
                                   | [] -> None
                                   | it :: l1 ->
                                     (match l1 with
                                      | [] -> None
                                      | b :: l2 ->
                                        (match l2 with
                                         | [] -> None
                                         | o :: l3 ->
                                           (match l3 with
                                            | [] ->
                                              bind (expr_of tg) (fun tg' ->
                                                bind (expr_of it) (fun it' ->
                                                  bind (block b) (fun b' ->
                                                    bind (block o) (fun o' ->
                                                      Some (SFor (tg', it',
                                                      b', o'))))))
                                            | _ :: _ -> None)))))
                          else if eqb0 t ('B'::('r'::('e'::('a'::('k'::[])))))
                               then Some SBreak
                               else if eqb0 t
                                         ('C'::('o'::('n'::('t'::('i'::('n'::('u'::('e'::[]))))))))
                                    then Some SContinue
                                    else if eqb0 t
                                              ('P'::('a'::('s'::('s'::[]))))
                                         then Some SPass
                                         else if eqb0 t
                                                   ('A'::('s'::('s'::('i'::('g'::('n'::[]))))))
                                              then (match rest with
                                                    | [] -> None
                                                    | s0 :: l0 ->
                                                      (match s0 with
                                                       | A _ -> None
                                                       | L ts ->
                                                         (match l0 with
                                                          | [] -> None
                                                          | v :: l1 ->
                                                            (match l1 with
                                                             | [] ->
                                                               bind
                                                                 (mapM
                                                                   expr_of ts)
                                                                 (fun ts' ->
                                                                 bind
                                                                   (expr_of v)
                                                                   (fun v' ->
                                                                   Some
                                                                   (SAssign
                                                                   (ts', v'))))
                                                             | _ :: _ -> None))))
                                              else if eqb0 t
                                                        ('A'::('n'::('n'::('A'::('s'::('s'::('i'::('g'::('n'::[])))))))))
                                                   then (match rest with
                                                         | [] -> None
                                                         | tg :: l0 ->
                                                           (match l0 with
                                                            | [] -> None
                                                            | v :: l1 ->
                                                              (match l1 with
                                                               | [] ->
                                                                 bind
                                                                   (expr_of
                                                                    tg)
                                                                   (fun tg' ->
                                                                   bind
                                                                    (opt_of
                                                                    expr_of v)
                                                                    (fun v' ->
                                                                    Some
                                                                    (SAnnAssign
                                                                    (tg',
                                                                    v'))))
                                                               | _ :: _ ->
                                                                 None)))
                                                   else if eqb0 t
                                                             ('A'::('u'::('g'::('A'::('s'::('s'::('i'::('g'::('n'::[])))))))))
                                                        then (match rest with
                                                              | [] -> None
                                                              | tg :: l0 ->
                                                                (match l0 with
                                                                 | [] -> None
                                                                 | s0 :: l1 ->
                                                                   (match s0 with
                                                                    | A o ->
                                                                    (match l1 with
                                                                    | [] ->
                                                                    None
                                                                    | v :: l2 ->
                                                                    (match l2 with
                                                                    | [] ->
                                                                    bind
                                                                    (expr_of
                                                                    tg)
                                                                    (fun tg' ->
                                                                    bind
                                                                    (find_by_name
                                                                    binop_name
                                                                    all_binops
                                                                    o)
                                                                    (fun o' ->
                                                                    bind
                                                                    (expr_of
                                                                    v)
                                                                    (fun v' ->
                                                                    Some
                                                                    (SAugAssign
                                                                    (tg', o',
                                                                    v')))))
                                                                    | _ :: _ ->
                                                                    None))
                                                                    | L _ ->
                                                                    None)))
                                                        else if eqb0 t
                                                                  ('F'::('u'::('n'::('c'::('t'::('i'::('o'::('n'::('D'::('e'::('f'::[])))))))))))
                                                             then (match rest with
                                                                   | [] ->
                                                                    None
                                                                   | n0 :: l0 ->
                                                                    (match l0 with
                                                                    | [] ->
                                                                    None
                                                                    | ln :: l1 ->
                                                                    (match l1 with
                                                                    | [] ->
                                                                    None
                                                                    | ar :: l2 ->
                                                                    (match l2 with
                                                                    | [] ->
                                                                    None
                                                                    | b :: l3 ->
                                                                    (match l3 with
                                                                    | [] ->
                                                                    None
                                                                    | s0 :: l4 ->
                                                                    (match s0 with
                                                                    | A _ ->
                                                                    None
                                                                    | L ds ->
                                                                    (match l4 with
                                                                    | [] ->
                                                                    bind
                                                                    (ident_of
                                                                    n0)
                                                                    (fun n' ->
                                                                    bind
                                                                    (z_of ln)
                                                                    (fun ln' ->
                                                                    bind
                                                                    (args_of
                                                                    ar)
                                                                    (fun ar' ->
                                                                    bind
                                                                    (block b)
                                                                    (fun b' ->
                                                                    bind
                                                                    (mapM
                                                                    expr_of
                                                                    ds)
                                                                    (fun ds' ->
                                                                    Some
                                                                    (SFunctionDef
                                                                    (n', ln',
                                                                    ar', b',
                                                                    ds')))))))
                                                                    | _ :: _ ->
                                                                    None)))))))
                                                             else if 
                                                                    eqb0 t
                                                                    ('R'::('e'::('t'::('u'::('r'::('n'::[]))))))
                                                                  then 
                                                                    (match rest with
                                                                    | [] ->
                                                                    None
                                                                    | v :: l0 ->
                                                                    (match l0 with
                                                                    | [] ->
                                                                    option_map
                                                                    (fun x0 ->
                                                                    SReturn
                                                                    x0)
                                                                    (opt_of
                                                                    expr_of v)
                                                                    | _ :: _ ->
                                                                    None))
                                                                  else 
                                                                    if 
                                                                    eqb0 t
                                                                    ('G'::('l'::('o'::('b'::('a'::('l'::[]))))))
                                                                    then 
                                                                    (match rest with
                                                                    | [] ->
                                                                    None
                                                                    | s0 :: l0 ->
                                                                    (match s0 with
                                                                    | A _ ->
                                                                    None
                                                                    | L ns ->
                                                                    (match l0 with
                                                                    | [] ->
                                                                    option_map
                                                                    (fun x0 ->
                                                                    SGlobal
                                                                    x0)
                                                                    (mapM
                                                                    ident_of
                                                                    ns)
                                                                    | _ :: _ ->
                                                                    None)))
                                                                    else 
                                                                    if 
                                                                    eqb0 t
                                                                    ('N'::('o'::('n'::('l'::('o'::('c'::('a'::('l'::[]))))))))
                                                                    then 
                                                                    (match rest with
                                                                    | [] ->
                                                                    None
                                                                    | s0 :: l0 ->
                                                                    (match s0 with
                                                                    | A _ ->
                                                                    None
                                                                    | L ns ->
                                                                    (match l0 with
                                                                    | [] ->
                                                                    option_map
                                                                    (fun x0 ->
                                                                    SNonlocal
                                                                    x0)
                                                                    (mapM
                                                                    ident_of
                                                                    ns)
                                                                    | _ :: _ ->
                                                                    None)))
                                                                    else 
                                                                    if 
                                                                    eqb0 t
                                                                    ('C'::('l'::('a'::('s'::('s'::('D'::('e'::('f'::[]))))))))
                                                                    then 
                                                                    (match rest with
                                                                    | [] ->
                                                                    None
                                                                    | n0 :: l0 ->
                                                                    (match l0 with
                                                                    | [] ->
                                                                    None
                                                                    | ln :: l1 ->
                                                                    (match l1 with
                                                                    | [] ->
                                                                    None
                                                                    | s0 :: l2 ->
                                                                    (match s0 with
                                                                    | A _ ->
                                                                    None
                                                                    | L bs ->
                                                                    (match l2 with
                                                                    | [] ->
                                                                    None
                                                                    | kws :: l3 ->
                                                                    (match l3 with
                                                                    | [] ->
                                                                    None
                                                                    | b :: l4 ->
                                                                    (match l4 with
                                                                    | [] ->
                                                                    None
                                                                    | s1 :: l5 ->
                                                                    (match s1 with
                                                                    | A _ ->
                                                                    None
                                                                    | L ds ->
                                                                    (match l5 with
                                                                    | [] ->
                                                                    bind
                                                                    (ident_of
                                                                    n0)
                                                                    (fun n' ->
                                                                    bind
                                                                    (z_of ln)
                                                                    (fun ln' ->
                                                                    bind
                                                                    (mapM
                                                                    expr_of
                                                                    bs)
                                                                    (fun bs' ->
                                                                    bind
                                                                    (kws_of
                                                                    kws)
                                                                    (fun kws' ->
                                                                    bind
                                                                    (block b)
                                                                    (fun b' ->
                                                                    bind
                                                                    (mapM
                                                                    expr_of
                                                                    ds)
                                                                    (fun ds' ->
                                                                    Some
                                                                    (SClassDef
                                                                    (n', ln',
                                                                    bs',
                                                                    kws', b',
                                                                    ds'))))))))
                                                                    | _ :: _ ->
                                                                    None)))))))))
                                                                    else 
                                                                    if 
                                                                    eqb0 t
                                                                    ('I'::('m'::('p'::('o'::('r'::('t'::[]))))))
                                                                    then 
                                                                    (match rest with
                                                                    | [] ->
                                                                    None
                                                                    | s0 :: l0 ->
                                                                    (match s0 with
                                                                    | A _ ->
                                                                    None
                                                                    | L ns ->
                                                                    (match l0 with
                                                                    | [] ->
                                                                    option_map
                                                                    (fun x0 ->
                                                                    SImport
                                                                    x0)
                                                                    (mapM
                                                                    alias_of
                                                                    ns)
                                                                    | _ :: _ ->
                                                                    None)))
                                                                    else 
                                                                    if 
                                                                    eqb0 t
                                                                    ('I'::('m'::('p'::('o'::('r'::('t'::('F'::('r'::('o'::('m'::[]))))))))))
                                                                    then 
                                                                    (match rest with
                                                                    | [] ->
                                                                    None
                                                                    | m :: l0 ->
                                                                    (match l0 with
                                                                    | [] ->
                                                                    None
                                                                    | s0 :: l1 ->
                                                                    (match s0 with
                                                                    | A _ ->
                                                                    None
                                                                    | L ns ->
                                                                    (match l1 with
                                                                    | [] ->
                                                                    None
                                                                    | lv :: l2 ->
                                                                    (match l2 with
                                                                    | [] ->
                                                                    bind
                                                                    (opt_of
                                                                    ident_of
                                                                    m)
                                                                    (fun m' ->
                                                                    bind
                                                                    (mapM
                                                                    alias_of
                                                                    ns)
                                                                    (fun ns' ->
                                                                    bind
                                                                    (z_of lv)
                                                                    (fun lv' ->
                                                                    Some
                                                                    (SImportFrom
                                                                    (m', ns',
                                                                    lv')))))
                                                                    | _ :: _ ->
                                                                    None)))))
                                                                    else 
                                                                    if 
                                                                    eqb0 t
                                                                    ('U'::('n'::('s'::('u'::('p'::('p'::('o'::('r'::('t'::('e'::('d'::[])))))))))))
                                                                    then 
                                                                    (match rest with
                                                                    | [] ->
                                                                    None
                                                                    | k :: l0 ->
                                                                    (match l0 with
                                                                    | [] ->
                                                                    option_map
                                                                    (fun x0 ->
                                                                    SUnsupported
                                                                    x0)
                                                                    (ident_of
                                                                    k)
                                                                    | _ :: _ ->
                                                                    None))
                                                                    else None
         | L _ -> None)))

(** val block_of : sexp -> stmt list option **)

let block_of = function
| A _ -> None
| L l -> mapM stmt_of l

(** val pREC_NAME : nat **)

let pREC_NAME =
  O

(** val pREC_ATTR : nat **)

let pREC_ATTR =
  S O

(** val pREC_ATTR_SLOT : nat **)

let pREC_ATTR_SLOT =
  S (S O)

(** val pREC_AWAIT_SLOT : nat **)

let pREC_AWAIT_SLOT =
  S (S (S O))

(** val pREC_AWAIT : nat **)

let pREC_AWAIT =
  S (S (S (S O)))

(** val pREC_POW_SLOT_LEFT : nat **)

let pREC_POW_SLOT_LEFT =
  S (S (S (S (S O))))

(** val pREC_POW : nat **)

let pREC_POW =
  S (S (S (S (S (S O)))))

(** val pREC_INV_UADD_USUB : nat **)

let pREC_INV_UADD_USUB =
  S (S (S (S (S (S (S O))))))

(** val pREC_INV_UADD_USUB_SLOT : nat **)

let pREC_INV_UADD_USUB_SLOT =
  S (S (S (S (S (S (S (S O)))))))

(** val pREC_POW_SLOT_RIGHT : nat **)

let pREC_POW_SLOT_RIGHT =
  S (S (S (S (S (S (S (S (S O))))))))

(** val pREC_MULT_SLOT_RIGHT : nat **)

let pREC_MULT_SLOT_RIGHT =
  S (S (S (S (S (S (S (S (S (S O)))))))))

(** val pREC_MULT : nat **)

let pREC_MULT =
  S (S (S (S (S (S (S (S (S (S (S O))))))))))

(** val pREC_MULT_SLOT_LEFT : nat **)

let pREC_MULT_SLOT_LEFT =
  S (S (S (S (S (S (S (S (S (S (S (S O)))))))))))

(** val pREC_ADD_SLOT_RIGHT : nat **)

let pREC_ADD_SLOT_RIGHT =
  S (S (S (S (S (S (S (S (S (S (S (S (S O))))))))))))

(** val pREC_ADD : nat **)

let pREC_ADD =
  S (S (S (S (S (S (S (S (S (S (S (S (S (S O)))))))))))))

(** val pREC_ADD_SLOT_LEFT : nat **)

let pREC_ADD_SLOT_LEFT =
  S (S (S (S (S (S (S (S (S (S (S (S (S (S (S O))))))))))))))

(** val pREC_SHIFT_SLOT_RIGHT : nat **)

let pREC_SHIFT_SLOT_RIGHT =
  S (S (S (S (S (S (S (S (S (S (S (S (S (S (S (S O)))))))))))))))

(** val pREC_SHIFT : nat **)

let pREC_SHIFT =
  S (S (S (S (S (S (S (S (S (S (S (S (S (S (S (S (S O))))))))))))))))

(** val pREC_SHIFT_SLOT_LEFT : nat **)

let pREC_SHIFT_SLOT_LEFT =
  S (S (S (S (S (S (S (S (S (S (S (S (S (S (S (S (S (S O)))))))))))))))))

(** val pREC_BITAND_SLOT_RIGHT : nat **)

let pREC_BITAND_SLOT_RIGHT =
  S (S (S (S (S (S (S (S (S (S (S (S (S (S (S (S (S (S (S O))))))))))))))))))

(** val pREC_BITAND : nat **)

let pREC_BITAND =
  S (S (S (S (S (S (S (S (S (S (S (S (S (S (S (S (S (S (S (S
    O)))))))))))))))))))

(** val pREC_BITAND_SLOT_LEFT : nat **)

let pREC_BITAND_SLOT_LEFT =
  S (S (S (S (S (S (S (S (S (S (S (S (S (S (S (S (S (S (S (S (S
    O))))))))))))))))))))

(** val pREC_BITXOR_SLOT_RIGHT : nat **)

let pREC_BITXOR_SLOT_RIGHT =
  S (S (S (S (S (S (S (S (S (S (S (S (S (S (S (S (S (S (S (S (S (S
    O)))))))))))))))))))))

(** val pREC_BITXOR : nat **)

let pREC_BITXOR =
  S (S (S (S (S (S (S (S (S (S (S (S (S (S (S (S (S (S (S (S (S (S (S
    O))))))))))))))))))))))

(** val pREC_BITXOR_SLOT_LEFT : nat **)

let pREC_BITXOR_SLOT_LEFT =
  S (S (S (S (S (S (S (S (S (S (S (S (S (S (S (S (S (S (S (S (S (S (S (S
    O)))))))))))))))))))))))

(** val pREC_BITOR_SLOT_RIGHT : nat **)

let pREC_BITOR_SLOT_RIGHT =
  S (S (S (S (S (S (S (S (S (S (S (S (S (S (S (S (S (S (S (S (S (S (S (S (S
    O))))))))))))))))))))))))

(** val pREC_BITOR : nat **)

let pREC_BITOR =
  S (S (S (S (S (S (S (S (S (S (S (S (S (S (S (S (S (S (S (S (S (S (S (S (S
    (S O)))))))))))))))))))))))))

(** val pREC_BITOR_SLOT_LEFT : nat **)

let pREC_BITOR_SLOT_LEFT =
  S (S (S (S (S (S (S (S (S (S (S (S (S (S (S (S (S (S (S (S (S (S (S (S (S
    (S (S O))))))))))))))))))))))))))

(** val pREC_STARRED_SLOT : nat **)

let pREC_STARRED_SLOT =
  S (S (S (S (S (S (S (S (S (S (S (S (S (S (S (S (S (S (S (S (S (S (S (S (S
    (S (S (S O)))))))))))))))))))))))))))

(** val pREC_COMPARE_SLOT : nat **)

let pREC_COMPARE_SLOT =
  S (S (S (S (S (S (S (S (S (S (S (S (S (S (S (S (S (S (S (S (S (S (S (S (S
    (S (S (S (S O))))))))))))))))))))))))))))

(** val pREC_COMPARE : nat **)

let pREC_COMPARE =
  S (S (S (S (S (S (S (S (S (S (S (S (S (S (S (S (S (S (S (S (S (S (S (S (S
    (S (S (S (S (S O)))))))))))))))))))))))))))))

(** val pREC_NOT : nat **)

let pREC_NOT =
  S (S (S (S (S (S (S (S (S (S (S (S (S (S (S (S (S (S (S (S (S (S (S (S (S
    (S (S (S (S (S (S O))))))))))))))))))))))))))))))

(** val pREC_NOT_SLOT : nat **)

let pREC_NOT_SLOT =
  S (S (S (S (S (S (S (S (S (S (S (S (S (S (S (S (S (S (S (S (S (S (S (S (S
    (S (S (S (S (S (S (S O)))))))))))))))))))))))))))))))

(** val pREC_AND_SLOT : nat **)

let pREC_AND_SLOT =
  S (S (S (S (S (S (S (S (S (S (S (S (S (S (S (S (S (S (S (S (S (S (S (S (S
    (S (S (S (S (S (S (S (S O))))))))))))))))))))))))))))))))

(** val pREC_AND : nat **)

let pREC_AND =
  S (S (S (S (S (S (S (S (S (S (S (S (S (S (S (S (S (S (S (S (S (S (S (S (S
    (S (S (S (S (S (S (S (S (S O)))))))))))))))))))))))))))))))))

(** val pREC_OR_SLOT : nat **)

let pREC_OR_SLOT =
  S (S (S (S (S (S (S (S (S (S (S (S (S (S (S (S (S (S (S (S (S (S (S (S (S
    (S (S (S (S (S (S (S (S (S (S O))))))))))))))))))))))))))))))))))

(** val pREC_OR : nat **)

let pREC_OR =
  S (S (S (S (S (S (S (S (S (S (S (S (S (S (S (S (S (S (S (S (S (S (S (S (S
    (S (S (S (S (S (S (S (S (S (S (S O)))))))))))))))))))))))))))))))))))

(** val pREC_COMPREHENSION_SLOT_ITER : nat **)

let pREC_COMPREHENSION_SLOT_ITER =
  S (S (S (S (S (S (S (S (S (S (S (S (S (S (S (S (S (S (S (S (S (S (S (S (S
    (S (S (S (S (S (S (S (S (S (S (S (S O))))))))))))))))))))))))))))))))))))

(** val pREC_IFEXP_SLOT_LEFT : nat **)

let pREC_IFEXP_SLOT_LEFT =
  S (S (S (S (S (S (S (S (S (S (S (S (S (S (S (S (S (S (S (S (S (S (S (S (S
    (S (S (S (S (S (S (S (S (S (S (S (S (S
    O)))))))))))))))))))))))))))))))))))))

(** val pREC_IFEXP : nat **)

let pREC_IFEXP =
  S (S (S (S (S (S (S (S (S (S (S (S (S (S (S (S (S (S (S (S (S (S (S (S (S
    (S (S (S (S (S (S (S (S (S (S (S (S (S (S
    O))))))))))))))))))))))))))))))))))))))

(** val pREC_IFEXP_SLOT_RIGHT : nat **)

let pREC_IFEXP_SLOT_RIGHT =
  S (S (S (S (S (S (S (S (S (S (S (S (S (S (S (S (S (S (S (S (S (S (S (S (S
    (S (S (S (S (S (S (S (S (S (S (S (S (S (S (S
    O)))))))))))))))))))))))))))))))))))))))

(** val pREC_FORMAT_EXPR_SLOT : nat **)

let pREC_FORMAT_EXPR_SLOT =
  S (S (S (S (S (S (S (S (S (S (S (S (S (S (S (S (S (S (S (S (S (S (S (S (S
    (S (S (S (S (S (S (S (S (S (S (S (S (S (S (S (S
    O))))))))))))))))))))))))))))))))))))))))

(** val pREC_LAMBDA : nat **)

let pREC_LAMBDA =
  S (S (S (S (S (S (S (S (S (S (S (S (S (S (S (S (S (S (S (S (S (S (S (S (S
    (S (S (S (S (S (S (S (S (S (S (S (S (S (S (S (S (S
    O)))))))))))))))))))))))))))))))))))))))))

(** val pREC_EXPR_SLOT : nat **)

let pREC_EXPR_SLOT =
  S (S (S (S (S (S (S (S (S (S (S (S (S (S (S (S (S (S (S (S (S (S (S (S (S
    (S (S (S (S (S (S (S (S (S (S (S (S (S (S (S (S (S (S
    O))))))))))))))))))))))))))))))))))))))))))

(** val pREC_CALL_SLOT_KWARG : nat **)

let pREC_CALL_SLOT_KWARG =
  S (S (S (S (S (S (S (S (S (S (S (S (S (S (S (S (S (S (S (S (S (S (S (S (S
    (S (S (S (S (S (S (S (S (S (S (S (S (S (S (S (S (S (S (S
    O)))))))))))))))))))))))))))))))))))))))))))

(** val pREC_NAMEDEXPR : nat **)

let pREC_NAMEDEXPR =
  S (S (S (S (S (S (S (S (S (S (S (S (S (S (S (S (S (S (S (S (S (S (S (S (S
    (S (S (S (S (S (S (S (S (S (S (S (S (S (S (S (S (S (S (S (S
    O))))))))))))))))))))))))))))))))))))))))))))

(** val pREC_CALL_SLOT_ARG : nat **)

let pREC_CALL_SLOT_ARG =
  S (S (S (S (S (S (S (S (S (S (S (S (S (S (S (S (S (S (S (S (S (S (S (S (S
    (S (S (S (S (S (S (S (S (S (S (S (S (S (S (S (S (S (S (S (S (S
    O)))))))))))))))))))))))))))))))))))))))))))))

(** val pREC_GENEXPR : nat **)

let pREC_GENEXPR =
  S (S (S (S (S (S (S (S (S (S (S (S (S (S (S (S (S (S (S (S (S (S (S (S (S
    (S (S (S (S (S (S (S (S (S (S (S (S (S (S (S (S (S (S (S (S (S (S
    O))))))))))))))))))))))))))))))))))))))))))))))

(** val pREC_CALL_SLOT_ONLYARG : nat **)

let pREC_CALL_SLOT_ONLYARG =
  S (S (S (S (S (S (S (S (S (S (S (S (S (S (S (S (S (S (S (S (S (S (S (S (S
    (S (S (S (S (S (S (S (S (S (S (S (S (S (S (S (S (S (S (S (S (S (S (S
    O)))))))))))))))))))))))))))))))))))))))))))))))

(** val pREC_YIELD : nat **)

let pREC_YIELD =
  S (S (S (S (S (S (S (S (S (S (S (S (S (S (S (S (S (S (S (S (S (S (S (S (S
    (S (S (S (S (S (S (S (S (S (S (S (S (S (S (S (S (S (S (S (S (S (S (S (S
    O))))))))))))))))))))))))))))))))))))))))))))))))

(** val node_prec_Name : nat **)

let node_prec_Name =
  pREC_NAME

(** val node_prec_Constant : nat **)

let node_prec_Constant =
  pREC_NAME

(** val node_prec_JoinedStr : nat **)

let node_prec_JoinedStr =
  pREC_NAME

(** val node_prec_FormattedValue : nat **)

let node_prec_FormattedValue =
  pREC_NAME

(** val node_prec_Starred : nat **)

let node_prec_Starred =
  pREC_NAME

(** val node_prec_List : nat **)

let node_prec_List =
  pREC_NAME

(** val node_prec_Tuple : nat **)

let node_prec_Tuple =
  pREC_NAME

(** val node_prec_Set : nat **)

let node_prec_Set =
  pREC_NAME

(** val node_prec_Dict : nat **)

let node_prec_Dict =
  pREC_NAME

(** val node_prec_Compare : nat **)

let node_prec_Compare =
  pREC_COMPARE

(** val node_prec_Attribute : nat **)

let node_prec_Attribute =
  pREC_ATTR

(** val node_prec_Subscript : nat **)

let node_prec_Subscript =
  pREC_ATTR

(** val node_prec_Slice : nat **)

let node_prec_Slice =
  pREC_NAME

(** val node_prec_Call : nat **)

let node_prec_Call =
  pREC_ATTR

(** val node_prec_NamedExpr : nat **)

let node_prec_NamedExpr =
  pREC_NAMEDEXPR

(** val node_prec_Lambda : nat **)

let node_prec_Lambda =
  pREC_LAMBDA

(** val node_prec_ListComp : nat **)

let node_prec_ListComp =
  pREC_NAME

(** val node_prec_SetComp : nat **)

let node_prec_SetComp =
  pREC_NAME

(** val node_prec_GeneratorExp : nat **)

let node_prec_GeneratorExp =
  pREC_GENEXPR

(** val node_prec_DictComp : nat **)

let node_prec_DictComp =
  pREC_NAME

(** val node_prec_IfExp : nat **)

let node_prec_IfExp =
  pREC_IFEXP

(** val node_prec_Yield : nat **)

let node_prec_Yield =
  pREC_YIELD

(** val node_prec_YieldFrom : nat **)

let node_prec_YieldFrom =
  pREC_YIELD

(** val node_prec_Await : nat **)

let node_prec_Await =
  pREC_AWAIT

(** val binop_prec : binop -> nat **)

let binop_prec = function
| Add -> pREC_ADD
| Sub -> pREC_ADD
| Pow -> pREC_POW
| LShift -> pREC_SHIFT
| RShift -> pREC_SHIFT
| BitOr -> pREC_BITOR
| BitXor -> pREC_BITXOR
| BitAnd -> pREC_BITAND
| _ -> pREC_MULT

(** val unop_prec : unop -> nat **)

let unop_prec = function
| Not -> pREC_NOT
| _ -> pREC_INV_UADD_USUB

(** val boolop_prec : boolop -> nat **)

let boolop_prec = function
| And -> pREC_AND
| Or -> pREC_OR

(** val binop_text : binop -> char list **)

let binop_text = function
| Add -> '+'::[]
| Sub -> '-'::[]
| Mult -> '*'::[]
| MatMult -> '@'::[]
| Div -> '/'::[]
| Mod -> '%'::[]
| Pow -> '*'::('*'::[])
| LShift -> '<'::('<'::[])
| RShift -> '>'::('>'::[])
| BitOr -> '|'::[]
| BitXor -> '^'::[]
| BitAnd -> '&'::[]
| FloorDiv -> '/'::('/'::[])

(** val unop_text : unop -> char list **)

let unop_text = function
| Invert -> '~'::[]
| Not -> 'n'::('o'::('t'::(' '::[])))
| UAdd -> '+'::[]
| USub -> '-'::[]

(** val boolop_text : boolop -> char list **)

let boolop_text = function
| And -> 'a'::('n'::('d'::[]))
| Or -> 'o'::('r'::[])

(** val cmpop_text : cmpop -> char list **)

let cmpop_text = function
| Eq0 -> '='::('='::[])
| NotEq -> '!'::('='::[])
| Lt0 -> '<'::[]
| LtE -> '<'::('='::[])
| Gt0 -> '>'::[]
| GtE -> '>'::('='::[])
| Is -> ' '::('i'::('s'::(' '::[])))
| IsNot -> ' '::('i'::('s'::(' '::('n'::('o'::('t'::(' '::[])))))))
| In -> ' '::('i'::('n'::(' '::[])))
| NotIn -> ' '::('n'::('o'::('t'::(' '::('i'::('n'::(' '::[])))))))

(** val slot_BinOp_left : binop -> nat **)

let slot_BinOp_left = function
| Add -> pREC_ADD_SLOT_LEFT
| Sub -> pREC_ADD_SLOT_LEFT
| Pow -> pREC_POW_SLOT_LEFT
| LShift -> pREC_SHIFT_SLOT_LEFT
| RShift -> pREC_SHIFT_SLOT_LEFT
| BitOr -> pREC_BITOR_SLOT_LEFT
| BitXor -> pREC_BITXOR_SLOT_LEFT
| BitAnd -> pREC_BITAND_SLOT_LEFT
| _ -> pREC_MULT_SLOT_LEFT

(** val slot_BinOp_right : binop -> nat **)

let slot_BinOp_right = function
| Add -> pREC_ADD_SLOT_RIGHT
| Sub -> pREC_ADD_SLOT_RIGHT
| Pow -> pREC_POW_SLOT_RIGHT
| LShift -> pREC_SHIFT_SLOT_RIGHT
| RShift -> pREC_SHIFT_SLOT_RIGHT
| BitOr -> pREC_BITOR_SLOT_RIGHT
| BitXor -> pREC_BITXOR_SLOT_RIGHT
| BitAnd -> pREC_BITAND_SLOT_RIGHT
| _ -> pREC_MULT_SLOT_RIGHT

(** val slot_UnaryOp : unop -> nat **)

let slot_UnaryOp = function
| Not -> pREC_NOT_SLOT
| _ -> pREC_INV_UADD_USUB_SLOT

(** val slot_BoolOp : boolop -> nat **)

let slot_BoolOp = function
| And -> pREC_AND_SLOT
| Or -> pREC_OR_SLOT

(** val slot_Attribute_value : nat **)

let slot_Attribute_value =
  pREC_ATTR_SLOT

(** val slot_Await_value : nat **)

let slot_Await_value =
  pREC_AWAIT_SLOT

(** val slot_Call_arg : nat **)

let slot_Call_arg =
  pREC_CALL_SLOT_ARG

(** val slot_Call_func : nat **)

let slot_Call_func =
  pREC_ATTR_SLOT

(** val slot_Call_kwarg : nat **)

let slot_Call_kwarg =
  pREC_CALL_SLOT_KWARG

(** val slot_Call_onlyarg : nat **)

let slot_Call_onlyarg =
  pREC_CALL_SLOT_ONLYARG

(** val slot_Compare_comparator : nat **)

let slot_Compare_comparator =
  pREC_COMPARE_SLOT

(** val slot_Compare_left : nat **)

let slot_Compare_left =
  pREC_COMPARE_SLOT

(** val slot_DictComp_key : nat **)

let slot_DictComp_key =
  pREC_EXPR_SLOT

(** val slot_DictComp_value : nat **)

let slot_DictComp_value =
  pREC_EXPR_SLOT

(** val slot_Dict_key : nat **)

let slot_Dict_key =
  pREC_EXPR_SLOT

(** val slot_Dict_starvalue : nat **)

let slot_Dict_starvalue =
  pREC_STARRED_SLOT

(** val slot_Dict_value : nat **)

let slot_Dict_value =
  pREC_EXPR_SLOT

(** val slot_FormattedValue_spec_field : nat **)

let slot_FormattedValue_spec_field =
  pREC_FORMAT_EXPR_SLOT

(** val slot_FormattedValue_value : nat **)

let slot_FormattedValue_value =
  pREC_FORMAT_EXPR_SLOT

(** val slot_GeneratorExp_elt : nat **)

let slot_GeneratorExp_elt =
  pREC_EXPR_SLOT

(** val slot_IfExp_body : nat **)

let slot_IfExp_body =
  pREC_IFEXP_SLOT_LEFT

(** val slot_IfExp_orelse : nat **)

let slot_IfExp_orelse =
  pREC_IFEXP_SLOT_RIGHT

(** val slot_IfExp_test : nat **)

let slot_IfExp_test =
  pREC_IFEXP_SLOT_LEFT

(** val slot_JoinedStr_field : nat **)

let slot_JoinedStr_field =
  pREC_FORMAT_EXPR_SLOT

(** val slot_Lambda_body : nat **)

let slot_Lambda_body =
  pREC_EXPR_SLOT

(** val slot_Lambda_default : nat **)

let slot_Lambda_default =
  pREC_EXPR_SLOT

(** val slot_Lambda_kwdefault : nat **)

let slot_Lambda_kwdefault =
  pREC_EXPR_SLOT

(** val slot_ListComp_elt : nat **)

let slot_ListComp_elt =
  pREC_EXPR_SLOT

(** val slot_List_elt : nat **)

let slot_List_elt =
  pREC_EXPR_SLOT

(** val slot_NamedExpr_value : nat **)

let slot_NamedExpr_value =
  pREC_EXPR_SLOT

(** val slot_SetComp_elt : nat **)

let slot_SetComp_elt =
  pREC_EXPR_SLOT

(** val slot_Set_elt : nat **)

let slot_Set_elt =
  pREC_EXPR_SLOT

(** val slot_Slice_lower : nat **)

let slot_Slice_lower =
  pREC_EXPR_SLOT

(** val slot_Slice_step : nat **)

let slot_Slice_step =
  pREC_EXPR_SLOT

(** val slot_Slice_upper : nat **)

let slot_Slice_upper =
  pREC_EXPR_SLOT

(** val slot_Starred_value : nat **)

let slot_Starred_value =
  pREC_STARRED_SLOT

(** val slot_Subscript_slice : nat **)

let slot_Subscript_slice =
  pREC_EXPR_SLOT

(** val slot_Subscript_value : nat **)

let slot_Subscript_value =
  pREC_ATTR_SLOT

(** val slot_Tuple_elt : nat **)

let slot_Tuple_elt =
  pREC_EXPR_SLOT

(** val slot_YieldFrom_value : nat **)

let slot_YieldFrom_value =
  pREC_EXPR_SLOT

(** val slot_Yield_value : nat **)

let slot_Yield_value =
  pREC_EXPR_SLOT

(** val slot_comp_if : nat **)

let slot_comp_if =
  pREC_COMPREHENSION_SLOT_ITER

(** val slot_comp_iter : nat **)

let slot_comp_iter =
  pREC_COMPREHENSION_SLOT_ITER

(** val slot_comp_target : nat **)

let slot_comp_target =
  pREC_EXPR_SLOT

(** val slot_top : nat **)

let slot_top =
  pREC_EXPR_SLOT

(** val escape_table_sq : n list list **)

let escape_table_sq =
  ((Npos (XO (XO (XI (XI (XI (XO XH))))))) :: ((Npos (XO (XO (XO (XI (XI (XI
    XH))))))) :: ((Npos (XO (XO (XO (XO (XI XH)))))) :: ((Npos (XO (XO (XO
    (XO (XI XH)))))) :: [])))) :: (((Npos (XO (XO (XI (XI (XI (XO
    XH))))))) :: ((Npos (XO (XO (XO (XI (XI (XI XH))))))) :: ((Npos (XO (XO
    (XO (XO (XI XH)))))) :: ((Npos (XI (XO (XO (XO (XI
    XH)))))) :: [])))) :: (((Npos (XO (XO (XI (XI (XI (XO XH))))))) :: ((Npos
    (XO (XO (XO (XI (XI (XI XH))))))) :: ((Npos (XO (XO (XO (XO (XI
    XH)))))) :: ((Npos (XO (XI (XO (XO (XI XH)))))) :: [])))) :: (((Npos (XO
    (XO (XI (XI (XI (XO XH))))))) :: ((Npos (XO (XO (XO (XI (XI (XI
    XH))))))) :: ((Npos (XO (XO (XO (XO (XI XH)))))) :: ((Npos (XI (XI (XO
    (XO (XI XH)))))) :: [])))) :: (((Npos (XO (XO (XI (XI (XI (XO
    XH))))))) :: ((Npos (XO (XO (XO (XI (XI (XI XH))))))) :: ((Npos (XO (XO
    (XO (XO (XI XH)))))) :: ((Npos (XO (XO (XI (XO (XI
    XH)))))) :: [])))) :: (((Npos (XO (XO (XI (XI (XI (XO XH))))))) :: ((Npos
    (XO (XO (XO (XI (XI (XI XH))))))) :: ((Npos (XO (XO (XO (XO (XI
    XH)))))) :: ((Npos (XI (XO (XI (XO (XI XH)))))) :: [])))) :: (((Npos (XO
    (XO (XI (XI (XI (XO XH))))))) :: ((Npos (XO (XO (XO (XI (XI (XI
    XH))))))) :: ((Npos (XO (XO (XO (XO (XI XH)))))) :: ((Npos (XO (XI (XI
    (XO (XI XH)))))) :: [])))) :: (((Npos (XO (XO (XI (XI (XI (XO
    XH))))))) :: ((Npos (XO (XO (XO (XI (XI (XI XH))))))) :: ((Npos (XO (XO
    (XO (XO (XI XH)))))) :: ((Npos (XI (XI (XI (XO (XI
    XH)))))) :: [])))) :: (((Npos (XO (XO (XI (XI (XI (XO XH))))))) :: ((Npos
    (XO (XO (XO (XI (XI (XI XH))))))) :: ((Npos (XO (XO (XO (XO (XI
    XH)))))) :: ((Npos (XO (XO (XO (XI (XI XH)))))) :: [])))) :: (((Npos (XO
    (XO (XI (XI (XI (XO XH))))))) :: ((Npos (XO (XO (XI (XO (XI (XI
    XH))))))) :: [])) :: (((Npos (XO (XO (XI (XI (XI (XO XH))))))) :: ((Npos
    (XO (XI (XI (XI (XO (XI XH))))))) :: [])) :: (((Npos (XO (XO (XI (XI (XI
    (XO XH))))))) :: ((Npos (XO (XO (XO (XI (XI (XI XH))))))) :: ((Npos (XO
    (XO (XO (XO (XI XH)))))) :: ((Npos (XO (XI (XO (XO (XO (XI
    XH))))))) :: [])))) :: (((Npos (XO (XO (XI (XI (XI (XO
    XH))))))) :: ((Npos (XO (XO (XO (XI (XI (XI XH))))))) :: ((Npos (XO (XO
    (XO (XO (XI XH)))))) :: ((Npos (XI (XI (XO (XO (XO (XI
    XH))))))) :: [])))) :: (((Npos (XO (XO (XI (XI (XI (XO
    XH))))))) :: ((Npos (XO (XI (XO (XO (XI (XI XH))))))) :: [])) :: (((Npos
    (XO (XO (XI (XI (XI (XO XH))))))) :: ((Npos (XO (XO (XO (XI (XI (XI
    XH))))))) :: ((Npos (XO (XO (XO (XO (XI XH)))))) :: ((Npos (XI (XO (XI
    (XO (XO (XI XH))))))) :: [])))) :: (((Npos (XO (XO (XI (XI (XI (XO
    XH))))))) :: ((Npos (XO (XO (XO (XI (XI (XI XH))))))) :: ((Npos (XO (XO
    (XO (XO (XI XH)))))) :: ((Npos (XO (XI (XI (XO (XO (XI
    XH))))))) :: [])))) :: (((Npos (XO (XO (XI (XI (XI (XO
    XH))))))) :: ((Npos (XO (XO (XO (XI (XI (XI XH))))))) :: ((Npos (XI (XO
    (XO (XO (XI XH)))))) :: ((Npos (XO (XO (XO (XO (XI
    XH)))))) :: [])))) :: (((Npos (XO (XO (XI (XI (XI (XO XH))))))) :: ((Npos
    (XO (XO (XO (XI (XI (XI XH))))))) :: ((Npos (XI (XO (XO (XO (XI
    XH)))))) :: ((Npos (XI (XO (XO (XO (XI XH)))))) :: [])))) :: (((Npos (XO
    (XO (XI (XI (XI (XO XH))))))) :: ((Npos (XO (XO (XO (XI (XI (XI
    XH))))))) :: ((Npos (XI (XO (XO (XO (XI XH)))))) :: ((Npos (XO (XI (XO
    (XO (XI XH)))))) :: [])))) :: (((Npos (XO (XO (XI (XI (XI (XO
    XH))))))) :: ((Npos (XO (XO (XO (XI (XI (XI XH))))))) :: ((Npos (XI (XO
    (XO (XO (XI XH)))))) :: ((Npos (XI (XI (XO (XO (XI
    XH)))))) :: [])))) :: (((Npos (XO (XO (XI (XI (XI (XO XH))))))) :: ((Npos
    (XO (XO (XO (XI (XI (XI XH))))))) :: ((Npos (XI (XO (XO (XO (XI
    XH)))))) :: ((Npos (XO (XO (XI (XO (XI XH)))))) :: [])))) :: (((Npos (XO
    (XO (XI (XI (XI (XO XH))))))) :: ((Npos (XO (XO (XO (XI (XI (XI
    XH))))))) :: ((Npos (XI (XO (XO (XO (XI XH)))))) :: ((Npos (XI (XO (XI
    (XO (XI XH)))))) :: [])))) :: (((Npos (XO (XO (XI (XI (XI (XO
    XH))))))) :: ((Npos (XO (XO (XO (XI (XI (XI XH))))))) :: ((Npos (XI (XO
    (XO (XO (XI XH)))))) :: ((Npos (XO (XI (XI (XO (XI
    XH)))))) :: [])))) :: (((Npos (XO (XO (XI (XI (XI (XO XH))))))) :: ((Npos
    (XO (XO (XO (XI (XI (XI XH))))))) :: ((Npos (XI (XO (XO (XO (XI
    XH)))))) :: ((Npos (XI (XI (XI (XO (XI XH)))))) :: [])))) :: (((Npos (XO
    (XO (XI (XI (XI (XO XH))))))) :: ((Npos (XO (XO (XO (XI (XI (XI
    XH))))))) :: ((Npos (XI (XO (XO (XO (XI XH)))))) :: ((Npos (XO (XO (XO
    (XI (XI XH)))))) :: [])))) :: (((Npos (XO (XO (XI (XI (XI (XO
    XH))))))) :: ((Npos (XO (XO (XO (XI (XI (XI XH))))))) :: ((Npos (XI (XO
    (XO (XO (XI XH)))))) :: ((Npos (XI (XO (XO (XI (XI
    XH)))))) :: [])))) :: (((Npos (XO (XO (XI (XI (XI (XO XH))))))) :: ((Npos
    (XO (XO (XO (XI (XI (XI XH))))))) :: ((Npos (XI (XO (XO (XO (XI
    XH)))))) :: ((Npos (XI (XO (XO (XO (XO (XI XH))))))) :: [])))) :: (((Npos
    (XO (XO (XI (XI (XI (XO XH))))))) :: ((Npos (XO (XO (XO (XI (XI (XI
    XH))))))) :: ((Npos (XI (XO (XO (XO (XI XH)))))) :: ((Npos (XO (XI (XO
    (XO (XO (XI XH))))))) :: [])))) :: (((Npos (XO (XO (XI (XI (XI (XO
    XH))))))) :: ((Npos (XO (XO (XO (XI (XI (XI XH))))))) :: ((Npos (XI (XO
    (XO (XO (XI XH)))))) :: ((Npos (XI (XI (XO (XO (XO (XI
    XH))))))) :: [])))) :: (((Npos (XO (XO (XI (XI (XI (XO
    XH))))))) :: ((Npos (XO (XO (XO (XI (XI (XI XH))))))) :: ((Npos (XI (XO
    (XO (XO (XI XH)))))) :: ((Npos (XO (XO (XI (XO (XO (XI
    XH))))))) :: [])))) :: (((Npos (XO (XO (XI (XI (XI (XO
    XH))))))) :: ((Npos (XO (XO (XO (XI (XI (XI XH))))))) :: ((Npos (XI (XO
    (XO (XO (XI XH)))))) :: ((Npos (XI (XO (XI (XO (XO (XI
    XH))))))) :: [])))) :: (((Npos (XO (XO (XI (XI (XI (XO
    XH))))))) :: ((Npos (XO (XO (XO (XI (XI (XI XH))))))) :: ((Npos (XI (XO
    (XO (XO (XI XH)))))) :: ((Npos (XO (XI (XI (XO (XO (XI
    XH))))))) :: [])))) :: (((Npos (XO (XO (XO (XO (XO
    XH)))))) :: []) :: (((Npos (XI (XO (XO (XO (XO XH)))))) :: []) :: (((Npos
    (XO (XI (XO (XO (XO XH)))))) :: []) :: (((Npos (XI (XI (XO (XO (XO
    XH)))))) :: []) :: (((Npos (XO (XO (XI (XO (XO XH)))))) :: []) :: (((Npos
    (XI (XO (XI (XO (XO XH)))))) :: []) :: (((Npos (XO (XI (XI (XO (XO
    XH)))))) :: []) :: (((Npos (XO (XO (XI (XI (XI (XO XH))))))) :: ((Npos
    (XI (XI (XI (XO (XO XH)))))) :: [])) :: (((Npos (XO (XO (XO (XI (XO
    XH)))))) :: []) :: (((Npos (XI (XO (XO (XI (XO XH)))))) :: []) :: (((Npos
    (XO (XI (XO (XI (XO XH)))))) :: []) :: (((Npos (XI (XI (XO (XI (XO
    XH)))))) :: []) :: (((Npos (XO (XO (XI (XI (XO XH)))))) :: []) :: (((Npos
    (XI (XO (XI (XI (XO XH)))))) :: []) :: (((Npos (XO (XI (XI (XI (XO
    XH)))))) :: []) :: (((Npos (XI (XI (XI (XI (XO XH)))))) :: []) :: (((Npos
    (XO (XO (XO (XO (XI XH)))))) :: []) :: (((Npos (XI (XO (XO (XO (XI
    XH)))))) :: []) :: (((Npos (XO (XI (XO (XO (XI XH)))))) :: []) :: (((Npos
    (XI (XI (XO (XO (XI XH)))))) :: []) :: (((Npos (XO (XO (XI (XO (XI
    XH)))))) :: []) :: (((Npos (XI (XO (XI (XO (XI XH)))))) :: []) :: (((Npos
    (XO (XI (XI (XO (XI XH)))))) :: []) :: (((Npos (XI (XI (XI (XO (XI
    XH)))))) :: []) :: (((Npos (XO (XO (XO (XI (XI XH)))))) :: []) :: (((Npos
    (XI (XO (XO (XI (XI XH)))))) :: []) :: (((Npos (XO (XI (XO (XI (XI
    XH)))))) :: []) :: (((Npos (XI (XI (XO (XI (XI XH)))))) :: []) :: (((Npos
    (XO (XO (XI (XI (XI XH)))))) :: []) :: (((Npos (XI (XO (XI (XI (XI
    XH)))))) :: []) :: (((Npos (XO (XI (XI (XI (XI XH)))))) :: []) :: (((Npos
    (XI (XI (XI (XI (XI XH)))))) :: []) :: (((Npos (XO (XO (XO (XO (XO (XO
    XH))))))) :: []) :: (((Npos (XI (XO (XO (XO (XO (XO
    XH))))))) :: []) :: (((Npos (XO (XI (XO (XO (XO (XO
    XH))))))) :: []) :: (((Npos (XI (XI (XO (XO (XO (XO
    XH))))))) :: []) :: (((Npos (XO (XO (XI (XO (XO (XO
    XH))))))) :: []) :: (((Npos (XI (XO (XI (XO (XO (XO
    XH))))))) :: []) :: (((Npos (XO (XI (XI (XO (XO (XO
    XH))))))) :: []) :: (((Npos (XI (XI (XI (XO (XO (XO
    XH))))))) :: []) :: (((Npos (XO (XO (XO (XI (XO (XO
    XH))))))) :: []) :: (((Npos (XI (XO (XO (XI (XO (XO
    XH))))))) :: []) :: (((Npos (XO (XI (XO (XI (XO (XO
    XH))))))) :: []) :: (((Npos (XI (XI (XO (XI (XO (XO
    XH))))))) :: []) :: (((Npos (XO (XO (XI (XI (XO (XO
    XH))))))) :: []) :: (((Npos (XI (XO (XI (XI (XO (XO
    XH))))))) :: []) :: (((Npos (XO (XI (XI (XI (XO (XO
    XH))))))) :: []) :: (((Npos (XI (XI (XI (XI (XO (XO
    XH))))))) :: []) :: (((Npos (XO (XO (XO (XO (XI (XO
    XH))))))) :: []) :: (((Npos (XI (XO (XO (XO (XI (XO
    XH))))))) :: []) :: (((Npos (XO (XI (XO (XO (XI (XO
    XH))))))) :: []) :: (((Npos (XI (XI (XO (XO (XI (XO
    XH))))))) :: []) :: (((Npos (XO (XO (XI (XO (XI (XO
    XH))))))) :: []) :: (((Npos (XI (XO (XI (XO (XI (XO
    XH))))))) :: []) :: (((Npos (XO (XI (XI (XO (XI (XO
    XH))))))) :: []) :: (((Npos (XI (XI (XI (XO (XI (XO
    XH))))))) :: []) :: (((Npos (XO (XO (XO (XI (XI (XO
    XH))))))) :: []) :: (((Npos (XI (XO (XO (XI (XI (XO
    XH))))))) :: []) :: (((Npos (XO (XI (XO (XI (XI (XO
    XH))))))) :: []) :: (((Npos (XI (XI (XO (XI (XI (XO
    XH))))))) :: []) :: (((Npos (XO (XO (XI (XI (XI (XO XH))))))) :: ((Npos
    (XO (XO (XI (XI (XI (XO XH))))))) :: [])) :: (((Npos (XI (XO (XI (XI (XI
    (XO XH))))))) :: []) :: (((Npos (XO (XI (XI (XI (XI (XO
    XH))))))) :: []) :: (((Npos (XI (XI (XI (XI (XI (XO
    XH))))))) :: []) :: (((Npos (XO (XO (XO (XO (XO (XI
    XH))))))) :: []) :: (((Npos (XI (XO (XO (XO (XO (XI
    XH))))))) :: []) :: (((Npos (XO (XI (XO (XO (XO (XI
    XH))))))) :: []) :: (((Npos (XI (XI (XO (XO (XO (XI
    XH))))))) :: []) :: (((Npos (XO (XO (XI (XO (XO (XI
    XH))))))) :: []) :: (((Npos (XI (XO (XI (XO (XO (XI
    XH))))))) :: []) :: (((Npos (XO (XI (XI (XO (XO (XI
    XH))))))) :: []) :: (((Npos (XI (XI (XI (XO (XO (XI
    XH))))))) :: []) :: (((Npos (XO (XO (XO (XI (XO (XI
    XH))))))) :: []) :: (((Npos (XI (XO (XO (XI (XO (XI
    XH))))))) :: []) :: (((Npos (XO (XI (XO (XI (XO (XI
    XH))))))) :: []) :: (((Npos (XI (XI (XO (XI (XO (XI
    XH))))))) :: []) :: (((Npos (XO (XO (XI (XI (XO (XI
    XH))))))) :: []) :: (((Npos (XI (XO (XI (XI (XO (XI
    XH))))))) :: []) :: (((Npos (XO (XI (XI (XI (XO (XI
    XH))))))) :: []) :: (((Npos (XI (XI (XI (XI (XO (XI
    XH))))))) :: []) :: (((Npos (XO (XO (XO (XO (XI (XI
    XH))))))) :: []) :: (((Npos (XI (XO (XO (XO (XI (XI
    XH))))))) :: []) :: (((Npos (XO (XI (XO (XO (XI (XI
    XH))))))) :: []) :: (((Npos (XI (XI (XO (XO (XI (XI
    XH))))))) :: []) :: (((Npos (XO (XO (XI (XO (XI (XI
    XH))))))) :: []) :: (((Npos (XI (XO (XI (XO (XI (XI
    XH))))))) :: []) :: (((Npos (XO (XI (XI (XO (XI (XI
    XH))))))) :: []) :: (((Npos (XI (XI (XI (XO (XI (XI
    XH))))))) :: []) :: (((Npos (XO (XO (XO (XI (XI (XI
    XH))))))) :: []) :: (((Npos (XI (XO (XO (XI (XI (XI
    XH))))))) :: []) :: (((Npos (XO (XI (XO (XI (XI (XI
    XH))))))) :: []) :: (((Npos (XI (XI (XO (XI (XI (XI
    XH))))))) :: []) :: (((Npos (XO (XO (XI (XI (XI (XI
    XH))))))) :: []) :: (((Npos (XI (XO (XI (XI (XI (XI
    XH))))))) :: []) :: (((Npos (XO (XI (XI (XI (XI (XI
    XH))))))) :: []) :: (((Npos (XO (XO (XI (XI (XI (XO XH))))))) :: ((Npos
    (XO (XO (XO (XI (XI (XI XH))))))) :: ((Npos (XI (XI (XI (XO (XI
    XH)))))) :: ((Npos (XO (XI (XI (XO (XO (XI XH))))))) :: [])))) :: (((Npos
    (XO (XO (XI (XI (XI (XO XH))))))) :: ((Npos (XO (XO (XO (XI (XI (XI
    XH))))))) :: ((Npos (XO (XO (XO (XI (XI XH)))))) :: ((Npos (XO (XO (XO
    (XO (XI XH)))))) :: [])))) :: (((Npos (XO (XO (XI (XI (XI (XO
    XH))))))) :: ((Npos (XO (XO (XO (XI (XI (XI XH))))))) :: ((Npos (XO (XO
    (XO (XI (XI XH)))))) :: ((Npos (XI (XO (XO (XO (XI
    XH)))))) :: [])))) :: (((Npos (XO (XO (XI (XI (XI (XO XH))))))) :: ((Npos
    (XO (XO (XO (XI (XI (XI XH))))))) :: ((Npos (XO (XO (XO (XI (XI
    XH)))))) :: ((Npos (XO (XI (XO (XO (XI XH)))))) :: [])))) :: (((Npos (XO
    (XO (XI (XI (XI (XO XH))))))) :: ((Npos (XO (XO (XO (XI (XI (XI
    XH))))))) :: ((Npos (XO (XO (XO (XI (XI XH)))))) :: ((Npos (XI (XI (XO
    (XO (XI XH)))))) :: [])))) :: (((Npos (XO (XO (XI (XI (XI (XO
    XH))))))) :: ((Npos (XO (XO (XO (XI (XI (XI XH))))))) :: ((Npos (XO (XO
    (XO (XI (XI XH)))))) :: ((Npos (XO (XO (XI (XO (XI
    XH)))))) :: [])))) :: (((Npos (XO (XO (XI (XI (XI (XO XH))))))) :: ((Npos
    (XO (XO (XO (XI (XI (XI XH))))))) :: ((Npos (XO (XO (XO (XI (XI
    XH)))))) :: ((Npos (XI (XO (XI (XO (XI XH)))))) :: [])))) :: (((Npos (XO
    (XO (XI (XI (XI (XO XH))))))) :: ((Npos (XO (XO (XO (XI (XI (XI
    XH))))))) :: ((Npos (XO (XO (XO (XI (XI XH)))))) :: ((Npos (XO (XI (XI
    (XO (XI XH)))))) :: [])))) :: (((Npos (XO (XO (XI (XI (XI (XO
    XH))))))) :: ((Npos (XO (XO (XO (XI (XI (XI XH))))))) :: ((Npos (XO (XO
    (XO (XI (XI XH)))))) :: ((Npos (XI (XI (XI (XO (XI
    XH)))))) :: [])))) :: (((Npos (XO (XO (XI (XI (XI (XO XH))))))) :: ((Npos
    (XO (XO (XO (XI (XI (XI XH))))))) :: ((Npos (XO (XO (XO (XI (XI
    XH)))))) :: ((Npos (XO (XO (XO (XI (XI XH)))))) :: [])))) :: (((Npos (XO
    (XO (XI (XI (XI (XO XH))))))) :: ((Npos (XO (XO (XO (XI (XI (XI
    XH))))))) :: ((Npos (XO (XO (XO (XI (XI XH)))))) :: ((Npos (XI (XO (XO
    (XI (XI XH)))))) :: [])))) :: (((Npos (XO (XO (XI (XI (XI (XO
    XH))))))) :: ((Npos (XO (XO (XO (XI (XI (XI XH))))))) :: ((Npos (XO (XO
    (XO (XI (XI XH)))))) :: ((Npos (XI (XO (XO (XO (XO (XI
    XH))))))) :: [])))) :: (((Npos (XO (XO (XI (XI (XI (XO
    XH))))))) :: ((Npos (XO (XO (XO (XI (XI (XI XH))))))) :: ((Npos (XO (XO
    (XO (XI (XI XH)))))) :: ((Npos (XO (XI (XO (XO (XO (XI
    XH))))))) :: [])))) :: (((Npos (XO (XO (XI (XI (XI (XO
    XH))))))) :: ((Npos (XO (XO (XO (XI (XI (XI XH))))))) :: ((Npos (XO (XO
    (XO (XI (XI XH)))))) :: ((Npos (XI (XI (XO (XO (XO (XI
    XH))))))) :: [])))) :: (((Npos (XO (XO (XI (XI (XI (XO
    XH))))))) :: ((Npos (XO (XO (XO (XI (XI (XI XH))))))) :: ((Npos (XO (XO
    (XO (XI (XI XH)))))) :: ((Npos (XO (XO (XI (XO (XO (XI
    XH))))))) :: [])))) :: (((Npos (XO (XO (XI (XI (XI (XO
    XH))))))) :: ((Npos (XO (XO (XO (XI (XI (XI XH))))))) :: ((Npos (XO (XO
    (XO (XI (XI XH)))))) :: ((Npos (XI (XO (XI (XO (XO (XI
    XH))))))) :: [])))) :: (((Npos (XO (XO (XI (XI (XI (XO
    XH))))))) :: ((Npos (XO (XO (XO (XI (XI (XI XH))))))) :: ((Npos (XO (XO
    (XO (XI (XI XH)))))) :: ((Npos (XO (XI (XI (XO (XO (XI
    XH))))))) :: [])))) :: (((Npos (XO (XO (XI (XI (XI (XO
    XH))))))) :: ((Npos (XO (XO (XO (XI (XI (XI XH))))))) :: ((Npos (XI (XO
    (XO (XI (XI XH)))))) :: ((Npos (XO (XO (XO (XO (XI
    XH)))))) :: [])))) :: (((Npos (XO (XO (XI (XI (XI (XO XH))))))) :: ((Npos
    (XO (XO (XO (XI (XI (XI XH))))))) :: ((Npos (XI (XO (XO (XI (XI
    XH)))))) :: ((Npos (XI (XO (XO (XO (XI XH)))))) :: [])))) :: (((Npos (XO
    (XO (XI (XI (XI (XO XH))))))) :: ((Npos (XO (XO (XO (XI (XI (XI
    XH))))))) :: ((Npos (XI (XO (XO (XI (XI XH)))))) :: ((Npos (XO (XI (XO
    (XO (XI XH)))))) :: [])))) :: (((Npos (XO (XO (XI (XI (XI (XO
    XH))))))) :: ((Npos (XO (XO (XO (XI (XI (XI XH))))))) :: ((Npos (XI (XO
    (XO (XI (XI XH)))))) :: ((Npos (XI (XI (XO (XO (XI
    XH)))))) :: [])))) :: (((Npos (XO (XO (XI (XI (XI (XO XH))))))) :: ((Npos
    (XO (XO (XO (XI (XI (XI XH))))))) :: ((Npos (XI (XO (XO (XI (XI
    XH)))))) :: ((Npos (XO (XO (XI (XO (XI XH)))))) :: [])))) :: (((Npos (XO
    (XO (XI (XI (XI (XO XH))))))) :: ((Npos (XO (XO (XO (XI (XI (XI
    XH))))))) :: ((Npos (XI (XO (XO (XI (XI XH)))))) :: ((Npos (XI (XO (XI
    (XO (XI XH)))))) :: [])))) :: (((Npos (XO (XO (XI (XI (XI (XO
    XH))))))) :: ((Npos (XO (XO (XO (XI (XI (XI XH))))))) :: ((Npos (XI (XO
    (XO (XI (XI XH)))))) :: ((Npos (XO (XI (XI (XO (XI
    XH)))))) :: [])))) :: (((Npos (XO (XO (XI (XI (XI (XO XH))))))) :: ((Npos
    (XO (XO (XO (XI (XI (XI XH))))))) :: ((Npos (XI (XO (XO (XI (XI
    XH)))))) :: ((Npos (XI (XI (XI (XO (XI XH)))))) :: [])))) :: (((Npos (XO
    (XO (XI (XI (XI (XO XH))))))) :: ((Npos (XO (XO (XO (XI (XI (XI
    XH))))))) :: ((Npos (XI (XO (XO (XI (XI XH)))))) :: ((Npos (XO (XO (XO
    (XI (XI XH)))))) :: [])))) :: (((Npos (XO (XO (XI (XI (XI (XO
    XH))))))) :: ((Npos (XO (XO (XO (XI (XI (XI XH))))))) :: ((Npos (XI (XO
    (XO (XI (XI XH)))))) :: ((Npos (XI (XO (XO (XI (XI
    XH)))))) :: [])))) :: (((Npos (XO (XO (XI (XI (XI (XO XH))))))) :: ((Npos
    (XO (XO (XO (XI (XI (XI XH))))))) :: ((Npos (XI (XO (XO (XI (XI
    XH)))))) :: ((Npos (XI (XO (XO (XO (XO (XI XH))))))) :: [])))) :: (((Npos
    (XO (XO (XI (XI (XI (XO XH))))))) :: ((Npos (XO (XO (XO (XI (XI (XI
    XH))))))) :: ((Npos (XI (XO (XO (XI (XI XH)))))) :: ((Npos (XO (XI (XO
    (XO (XO (XI XH))))))) :: [])))) :: (((Npos (XO (XO (XI (XI (XI (XO
    XH))))))) :: ((Npos (XO (XO (XO (XI (XI (XI XH))))))) :: ((Npos (XI (XO
    (XO (XI (XI XH)))))) :: ((Npos (XI (XI (XO (XO (XO (XI
    XH))))))) :: [])))) :: (((Npos (XO (XO (XI (XI (XI (XO
    XH))))))) :: ((Npos (XO (XO (XO (XI (XI (XI XH))))))) :: ((Npos (XI (XO
    (XO (XI (XI XH)))))) :: ((Npos (XO (XO (XI (XO (XO (XI
    XH))))))) :: [])))) :: (((Npos (XO (XO (XI (XI (XI (XO
    XH))))))) :: ((Npos (XO (XO (XO (XI (XI (XI XH))))))) :: ((Npos (XI (XO
    (XO (XI (XI XH)))))) :: ((Npos (XI (XO (XI (XO (XO (XI
    XH))))))) :: [])))) :: (((Npos (XO (XO (XI (XI (XI (XO
    XH))))))) :: ((Npos (XO (XO (XO (XI (XI (XI XH))))))) :: ((Npos (XI (XO
    (XO (XI (XI XH)))))) :: ((Npos (XO (XI (XI (XO (XO (XI
    XH))))))) :: [])))) :: (((Npos (XO (XO (XI (XI (XI (XO
    XH))))))) :: ((Npos (XO (XO (XO (XI (XI (XI XH))))))) :: ((Npos (XI (XO
    (XO (XO (XO (XI XH))))))) :: ((Npos (XO (XO (XO (XO (XI
    XH)))))) :: [])))) :: (((Npos (XO (XO (XI (XI (XI (XO XH))))))) :: ((Npos
    (XO (XO (XO (XI (XI (XI XH))))))) :: ((Npos (XI (XO (XO (XO (XO (XI
    XH))))))) :: ((Npos (XI (XO (XO (XO (XI XH)))))) :: [])))) :: (((Npos (XO
    (XO (XI (XI (XI (XO XH))))))) :: ((Npos (XO (XO (XO (XI (XI (XI
    XH))))))) :: ((Npos (XI (XO (XO (XO (XO (XI XH))))))) :: ((Npos (XO (XI
    (XO (XO (XI XH)))))) :: [])))) :: (((Npos (XO (XO (XI (XI (XI (XO
    XH))))))) :: ((Npos (XO (XO (XO (XI (XI (XI XH))))))) :: ((Npos (XI (XO
    (XO (XO (XO (XI XH))))))) :: ((Npos (XI (XI (XO (XO (XI
    XH)))))) :: [])))) :: (((Npos (XO (XO (XI (XI (XI (XO XH))))))) :: ((Npos
    (XO (XO (XO (XI (XI (XI XH))))))) :: ((Npos (XI (XO (XO (XO (XO (XI
    XH))))))) :: ((Npos (XO (XO (XI (XO (XI XH)))))) :: [])))) :: (((Npos (XO
    (XO (XI (XI (XI (XO XH))))))) :: ((Npos (XO (XO (XO (XI (XI (XI
    XH))))))) :: ((Npos (XI (XO (XO (XO (XO (XI XH))))))) :: ((Npos (XI (XO
    (XI (XO (XI XH)))))) :: [])))) :: (((Npos (XO (XO (XI (XI (XI (XO
    XH))))))) :: ((Npos (XO (XO (XO (XI (XI (XI XH))))))) :: ((Npos (XI (XO
    (XO (XO (XO (XI XH))))))) :: ((Npos (XO (XI (XI (XO (XI
    XH)))))) :: [])))) :: (((Npos (XO (XO (XI (XI (XI (XO XH))))))) :: ((Npos
    (XO (XO (XO (XI (XI (XI XH))))))) :: ((Npos (XI (XO (XO (XO (XO (XI
    XH))))))) :: ((Npos (XI (XI (XI (XO (XI XH)))))) :: [])))) :: (((Npos (XO
    (XO (XI (XI (XI (XO XH))))))) :: ((Npos (XO (XO (XO (XI (XI (XI
    XH))))))) :: ((Npos (XI (XO (XO (XO (XO (XI XH))))))) :: ((Npos (XO (XO
    (XO (XI (XI XH)))))) :: [])))) :: (((Npos (XO (XO (XI (XI (XI (XO
    XH))))))) :: ((Npos (XO (XO (XO (XI (XI (XI XH))))))) :: ((Npos (XI (XO
    (XO (XO (XO (XI XH))))))) :: ((Npos (XI (XO (XO (XI (XI
    XH)))))) :: [])))) :: (((Npos (XO (XO (XI (XI (XI (XO XH))))))) :: ((Npos
    (XO (XO (XO (XI (XI (XI XH))))))) :: ((Npos (XI (XO (XO (XO (XO (XI
    XH))))))) :: ((Npos (XI (XO (XO (XO (XO (XI
    XH))))))) :: [])))) :: (((Npos (XO (XO (XI (XI (XI (XO
    XH))))))) :: ((Npos (XO (XO (XO (XI (XI (XI XH))))))) :: ((Npos (XI (XO
    (XO (XO (XO (XI XH))))))) :: ((Npos (XO (XI (XO (XO (XO (XI
    XH))))))) :: [])))) :: (((Npos (XO (XO (XI (XI (XI (XO
    XH))))))) :: ((Npos (XO (XO (XO (XI (XI (XI XH))))))) :: ((Npos (XI (XO
    (XO (XO (XO (XI XH))))))) :: ((Npos (XI (XI (XO (XO (XO (XI
    XH))))))) :: [])))) :: (((Npos (XO (XO (XI (XI (XI (XO
    XH))))))) :: ((Npos (XO (XO (XO (XI (XI (XI XH))))))) :: ((Npos (XI (XO
    (XO (XO (XO (XI XH))))))) :: ((Npos (XO (XO (XI (XO (XO (XI
    XH))))))) :: [])))) :: (((Npos (XO (XO (XI (XI (XI (XO
    XH))))))) :: ((Npos (XO (XO (XO (XI (XI (XI XH))))))) :: ((Npos (XI (XO
    (XO (XO (XO (XI XH))))))) :: ((Npos (XI (XO (XI (XO (XO (XI
    XH))))))) :: [])))) :: (((Npos (XO (XO (XI (XI (XI (XO
    XH))))))) :: ((Npos (XO (XO (XO (XI (XI (XI XH))))))) :: ((Npos (XI (XO
    (XO (XO (XO (XI XH))))))) :: ((Npos (XO (XI (XI (XO (XO (XI
    XH))))))) :: [])))) :: (((Npos (XO (XO (XI (XI (XI (XO
    XH))))))) :: ((Npos (XO (XO (XO (XI (XI (XI XH))))))) :: ((Npos (XO (XI
    (XO (XO (XO (XI XH))))))) :: ((Npos (XO (XO (XO (XO (XI
    XH)))))) :: [])))) :: (((Npos (XO (XO (XI (XI (XI (XO XH))))))) :: ((Npos
    (XO (XO (XO (XI (XI (XI XH))))))) :: ((Npos (XO (XI (XO (XO (XO (XI
    XH))))))) :: ((Npos (XI (XO (XO (XO (XI XH)))))) :: [])))) :: (((Npos (XO
    (XO (XI (XI (XI (XO XH))))))) :: ((Npos (XO (XO (XO (XI (XI (XI
    XH))))))) :: ((Npos (XO (XI (XO (XO (XO (XI XH))))))) :: ((Npos (XO (XI
    (XO (XO (XI XH)))))) :: [])))) :: (((Npos (XO (XO (XI (XI (XI (XO
    XH))))))) :: ((Npos (XO (XO (XO (XI (XI (XI XH))))))) :: ((Npos (XO (XI
    (XO (XO (XO (XI XH))))))) :: ((Npos (XI (XI (XO (XO (XI
    XH)))))) :: [])))) :: (((Npos (XO (XO (XI (XI (XI (XO XH))))))) :: ((Npos
    (XO (XO (XO (XI (XI (XI XH))))))) :: ((Npos (XO (XI (XO (XO (XO (XI
    XH))))))) :: ((Npos (XO (XO (XI (XO (XI XH)))))) :: [])))) :: (((Npos (XO
    (XO (XI (XI (XI (XO XH))))))) :: ((Npos (XO (XO (XO (XI (XI (XI
    XH))))))) :: ((Npos (XO (XI (XO (XO (XO (XI XH))))))) :: ((Npos (XI (XO
    (XI (XO (XI XH)))))) :: [])))) :: (((Npos (XO (XO (XI (XI (XI (XO
    XH))))))) :: ((Npos (XO (XO (XO (XI (XI (XI XH))))))) :: ((Npos (XO (XI
    (XO (XO (XO (XI XH))))))) :: ((Npos (XO (XI (XI (XO (XI
    XH)))))) :: [])))) :: (((Npos (XO (XO (XI (XI (XI (XO XH))))))) :: ((Npos
    (XO (XO (XO (XI (XI (XI XH))))))) :: ((Npos (XO (XI (XO (XO (XO (XI
    XH))))))) :: ((Npos (XI (XI (XI (XO (XI XH)))))) :: [])))) :: (((Npos (XO
    (XO (XI (XI (XI (XO XH))))))) :: ((Npos (XO (XO (XO (XI (XI (XI
    XH))))))) :: ((Npos (XO (XI (XO (XO (XO (XI XH))))))) :: ((Npos (XO (XO
    (XO (XI (XI XH)))))) :: [])))) :: (((Npos (XO (XO (XI (XI (XI (XO
    XH))))))) :: ((Npos (XO (XO (XO (XI (XI (XI XH))))))) :: ((Npos (XO (XI
    (XO (XO (XO (XI XH))))))) :: ((Npos (XI (XO (XO (XI (XI
    XH)))))) :: [])))) :: (((Npos (XO (XO (XI (XI (XI (XO XH))))))) :: ((Npos
    (XO (XO (XO (XI (XI (XI XH))))))) :: ((Npos (XO (XI (XO (XO (XO (XI
    XH))))))) :: ((Npos (XI (XO (XO (XO (XO (XI
    XH))))))) :: [])))) :: (((Npos (XO (XO (XI (XI (XI (XO
    XH))))))) :: ((Npos (XO (XO (XO (XI (XI (XI XH))))))) :: ((Npos (XO (XI
    (XO (XO (XO (XI XH))))))) :: ((Npos (XO (XI (XO (XO (XO (XI
    XH))))))) :: [])))) :: (((Npos (XO (XO (XI (XI (XI (XO
    XH))))))) :: ((Npos (XO (XO (XO (XI (XI (XI XH))))))) :: ((Npos (XO (XI
    (XO (XO (XO (XI XH))))))) :: ((Npos (XI (XI (XO (XO (XO (XI
    XH))))))) :: [])))) :: (((Npos (XO (XO (XI (XI (XI (XO
    XH))))))) :: ((Npos (XO (XO (XO (XI (XI (XI XH))))))) :: ((Npos (XO (XI
    (XO (XO (XO (XI XH))))))) :: ((Npos (XO (XO (XI (XO (XO (XI
    XH))))))) :: [])))) :: (((Npos (XO (XO (XI (XI (XI (XO
    XH))))))) :: ((Npos (XO (XO (XO (XI (XI (XI XH))))))) :: ((Npos (XO (XI
    (XO (XO (XO (XI XH))))))) :: ((Npos (XI (XO (XI (XO (XO (XI
    XH))))))) :: [])))) :: (((Npos (XO (XO (XI (XI (XI (XO
    XH))))))) :: ((Npos (XO (XO (XO (XI (XI (XI XH))))))) :: ((Npos (XO (XI
    (XO (XO (XO (XI XH))))))) :: ((Npos (XO (XI (XI (XO (XO (XI
    XH))))))) :: [])))) :: (((Npos (XO (XO (XI (XI (XI (XO
    XH))))))) :: ((Npos (XO (XO (XO (XI (XI (XI XH))))))) :: ((Npos (XI (XI
    (XO (XO (XO (XI XH))))))) :: ((Npos (XO (XO (XO (XO (XI
    XH)))))) :: [])))) :: (((Npos (XO (XO (XI (XI (XI (XO XH))))))) :: ((Npos
    (XO (XO (XO (XI (XI (XI XH))))))) :: ((Npos (XI (XI (XO (XO (XO (XI
    XH))))))) :: ((Npos (XI (XO (XO (XO (XI XH)))))) :: [])))) :: (((Npos (XO
    (XO (XI (XI (XI (XO XH))))))) :: ((Npos (XO (XO (XO (XI (XI (XI
    XH))))))) :: ((Npos (XI (XI (XO (XO (XO (XI XH))))))) :: ((Npos (XO (XI
    (XO (XO (XI XH)))))) :: [])))) :: (((Npos (XO (XO (XI (XI (XI (XO
    XH))))))) :: ((Npos (XO (XO (XO (XI (XI (XI XH))))))) :: ((Npos (XI (XI
    (XO (XO (XO (XI XH))))))) :: ((Npos (XI (XI (XO (XO (XI
    XH)))))) :: [])))) :: (((Npos (XO (XO (XI (XI (XI (XO XH))))))) :: ((Npos
    (XO (XO (XO (XI (XI (XI XH))))))) :: ((Npos (XI (XI (XO (XO (XO (XI
    XH))))))) :: ((Npos (XO (XO (XI (XO (XI XH)))))) :: [])))) :: (((Npos (XO
    (XO (XI (XI (XI (XO XH))))))) :: ((Npos (XO (XO (XO (XI (XI (XI
    XH))))))) :: ((Npos (XI (XI (XO (XO (XO (XI XH))))))) :: ((Npos (XI (XO
    (XI (XO (XI XH)))))) :: [])))) :: (((Npos (XO (XO (XI (XI (XI (XO
    XH))))))) :: ((Npos (XO (XO (XO (XI (XI (XI XH))))))) :: ((Npos (XI (XI
    (XO (XO (XO (XI XH))))))) :: ((Npos (XO (XI (XI (XO (XI
    XH)))))) :: [])))) :: (((Npos (XO (XO (XI (XI (XI (XO XH))))))) :: ((Npos
    (XO (XO (XO (XI (XI (XI XH))))))) :: ((Npos (XI (XI (XO (XO (XO (XI
    XH))))))) :: ((Npos (XI (XI (XI (XO (XI XH)))))) :: [])))) :: (((Npos (XO
    (XO (XI (XI (XI (XO XH))))))) :: ((Npos (XO (XO (XO (XI (XI (XI
    XH))))))) :: ((Npos (XI (XI (XO (XO (XO (XI XH))))))) :: ((Npos (XO (XO
    (XO (XI (XI XH)))))) :: [])))) :: (((Npos (XO (XO (XI (XI (XI (XO
    XH))))))) :: ((Npos (XO (XO (XO (XI (XI (XI XH))))))) :: ((Npos (XI (XI
    (XO (XO (XO (XI XH))))))) :: ((Npos (XI (XO (XO (XI (XI
    XH)))))) :: [])))) :: (((Npos (XO (XO (XI (XI (XI (XO XH))))))) :: ((Npos
    (XO (XO (XO (XI (XI (XI XH))))))) :: ((Npos (XI (XI (XO (XO (XO (XI
    XH))))))) :: ((Npos (XI (XO (XO (XO (XO (XI
    XH))))))) :: [])))) :: (((Npos (XO (XO (XI (XI (XI (XO
    XH))))))) :: ((Npos (XO (XO (XO (XI (XI (XI XH))))))) :: ((Npos (XI (XI
    (XO (XO (XO (XI XH))))))) :: ((Npos (XO (XI (XO (XO (XO (XI
    XH))))))) :: [])))) :: (((Npos (XO (XO (XI (XI (XI (XO
    XH))))))) :: ((Npos (XO (XO (XO (XI (XI (XI XH))))))) :: ((Npos (XI (XI
    (XO (XO (XO (XI XH))))))) :: ((Npos (XI (XI (XO (XO (XO (XI
    XH))))))) :: [])))) :: (((Npos (XO (XO (XI (XI (XI (XO
    XH))))))) :: ((Npos (XO (XO (XO (XI (XI (XI XH))))))) :: ((Npos (XI (XI
    (XO (XO (XO (XI XH))))))) :: ((Npos (XO (XO (XI (XO (XO (XI
    XH))))))) :: [])))) :: (((Npos (XO (XO (XI (XI (XI (XO
    XH))))))) :: ((Npos (XO (XO (XO (XI (XI (XI XH))))))) :: ((Npos (XI (XI
    (XO (XO (XO (XI XH))))))) :: ((Npos (XI (XO (XI (XO (XO (XI
    XH))))))) :: [])))) :: (((Npos (XO (XO (XI (XI (XI (XO
    XH))))))) :: ((Npos (XO (XO (XO (XI (XI (XI XH))))))) :: ((Npos (XI (XI
    (XO (XO (XO (XI XH))))))) :: ((Npos (XO (XI (XI (XO (XO (XI
    XH))))))) :: [])))) :: (((Npos (XO (XO (XI (XI (XI (XO
    XH))))))) :: ((Npos (XO (XO (XO (XI (XI (XI XH))))))) :: ((Npos (XO (XO
    (XI (XO (XO (XI XH))))))) :: ((Npos (XO (XO (XO (XO (XI
    XH)))))) :: [])))) :: (((Npos (XO (XO (XI (XI (XI (XO XH))))))) :: ((Npos
    (XO (XO (XO (XI (XI (XI XH))))))) :: ((Npos (XO (XO (XI (XO (XO (XI
    XH))))))) :: ((Npos (XI (XO (XO (XO (XI XH)))))) :: [])))) :: (((Npos (XO
    (XO (XI (XI (XI (XO XH))))))) :: ((Npos (XO (XO (XO (XI (XI (XI
    XH))))))) :: ((Npos (XO (XO (XI (XO (XO (XI XH))))))) :: ((Npos (XO (XI
    (XO (XO (XI XH)))))) :: [])))) :: (((Npos (XO (XO (XI (XI (XI (XO
    XH))))))) :: ((Npos (XO (XO (XO (XI (XI (XI XH))))))) :: ((Npos (XO (XO
    (XI (XO (XO (XI XH))))))) :: ((Npos (XI (XI (XO (XO (XI
    XH)))))) :: [])))) :: (((Npos (XO (XO (XI (XI (XI (XO XH))))))) :: ((Npos
    (XO (XO (XO (XI (XI (XI XH))))))) :: ((Npos (XO (XO (XI (XO (XO (XI
    XH))))))) :: ((Npos (XO (XO (XI (XO (XI XH)))))) :: [])))) :: (((Npos (XO
    (XO (XI (XI (XI (XO XH))))))) :: ((Npos (XO (XO (XO (XI (XI (XI
    XH))))))) :: ((Npos (XO (XO (XI (XO (XO (XI XH))))))) :: ((Npos (XI (XO
    (XI (XO (XI XH)))))) :: [])))) :: (((Npos (XO (XO (XI (XI (XI (XO
    XH))))))) :: ((Npos (XO (XO (XO (XI (XI (XI XH))))))) :: ((Npos (XO (XO
    (XI (XO (XO (XI XH))))))) :: ((Npos (XO (XI (XI (XO (XI
    XH)))))) :: [])))) :: (((Npos (XO (XO (XI (XI (XI (XO XH))))))) :: ((Npos
    (XO (XO (XO (XI (XI (XI XH))))))) :: ((Npos (XO (XO (XI (XO (XO (XI
    XH))))))) :: ((Npos (XI (XI (XI (XO (XI XH)))))) :: [])))) :: (((Npos (XO
    (XO (XI (XI (XI (XO XH))))))) :: ((Npos (XO (XO (XO (XI (XI (XI
    XH))))))) :: ((Npos (XO (XO (XI (XO (XO (XI XH))))))) :: ((Npos (XO (XO
    (XO (XI (XI XH)))))) :: [])))) :: (((Npos (XO (XO (XI (XI (XI (XO
    XH))))))) :: ((Npos (XO (XO (XO (XI (XI (XI XH))))))) :: ((Npos (XO (XO
    (XI (XO (XO (XI XH))))))) :: ((Npos (XI (XO (XO (XI (XI
    XH)))))) :: [])))) :: (((Npos (XO (XO (XI (XI (XI (XO XH))))))) :: ((Npos
    (XO (XO (XO (XI (XI (XI XH))))))) :: ((Npos (XO (XO (XI (XO (XO (XI
    XH))))))) :: ((Npos (XI (XO (XO (XO (XO (XI
    XH))))))) :: [])))) :: (((Npos (XO (XO (XI (XI (XI (XO
    XH))))))) :: ((Npos (XO (XO (XO (XI (XI (XI XH))))))) :: ((Npos (XO (XO
    (XI (XO (XO (XI XH))))))) :: ((Npos (XO (XI (XO (XO (XO (XI
    XH))))))) :: [])))) :: (((Npos (XO (XO (XI (XI (XI (XO
    XH))))))) :: ((Npos (XO (XO (XO (XI (XI (XI XH))))))) :: ((Npos (XO (XO
    (XI (XO (XO (XI XH))))))) :: ((Npos (XI (XI (XO (XO (XO (XI
    XH))))))) :: [])))) :: (((Npos (XO (XO (XI (XI (XI (XO
    XH))))))) :: ((Npos (XO (XO (XO (XI (XI (XI XH))))))) :: ((Npos (XO (XO
    (XI (XO (XO (XI XH))))))) :: ((Npos (XO (XO (XI (XO (XO (XI
    XH))))))) :: [])))) :: (((Npos (XO (XO (XI (XI (XI (XO
    XH))))))) :: ((Npos (XO (XO (XO (XI (XI (XI XH))))))) :: ((Npos (XO (XO
    (XI (XO (XO (XI XH))))))) :: ((Npos (XI (XO (XI (XO (XO (XI
    XH))))))) :: [])))) :: (((Npos (XO (XO (XI (XI (XI (XO
    XH))))))) :: ((Npos (XO (XO (XO (XI (XI (XI XH))))))) :: ((Npos (XO (XO
    (XI (XO (XO (XI XH))))))) :: ((Npos (XO (XI (XI (XO (XO (XI
    XH))))))) :: [])))) :: (((Npos (XO (XO (XI (XI (XI (XO
    XH))))))) :: ((Npos (XO (XO (XO (XI (XI (XI XH))))))) :: ((Npos (XI (XO
    (XI (XO (XO (XI XH))))))) :: ((Npos (XO (XO (XO (XO (XI
    XH)))))) :: [])))) :: (((Npos (XO (XO (XI (XI (XI (XO XH))))))) :: ((Npos
    (XO (XO (XO (XI (XI (XI XH))))))) :: ((Npos (XI (XO (XI (XO (XO (XI
    XH))))))) :: ((Npos (XI (XO (XO (XO (XI XH)))))) :: [])))) :: (((Npos (XO
    (XO (XI (XI (XI (XO XH))))))) :: ((Npos (XO (XO (XO (XI (XI (XI
    XH))))))) :: ((Npos (XI (XO (XI (XO (XO (XI XH))))))) :: ((Npos (XO (XI
    (XO (XO (XI XH)))))) :: [])))) :: (((Npos (XO (XO (XI (XI (XI (XO
    XH))))))) :: ((Npos (XO (XO (XO (XI (XI (XI XH))))))) :: ((Npos (XI (XO
    (XI (XO (XO (XI XH))))))) :: ((Npos (XI (XI (XO (XO (XI
    XH)))))) :: [])))) :: (((Npos (XO (XO (XI (XI (XI (XO XH))))))) :: ((Npos
    (XO (XO (XO (XI (XI (XI XH))))))) :: ((Npos (XI (XO (XI (XO (XO (XI
    XH))))))) :: ((Npos (XO (XO (XI (XO (XI XH)))))) :: [])))) :: (((Npos (XO
    (XO (XI (XI (XI (XO XH))))))) :: ((Npos (XO (XO (XO (XI (XI (XI
    XH))))))) :: ((Npos (XI (XO (XI (XO (XO (XI XH))))))) :: ((Npos (XI (XO
    (XI (XO (XI XH)))))) :: [])))) :: (((Npos (XO (XO (XI (XI (XI (XO
    XH))))))) :: ((Npos (XO (XO (XO (XI (XI (XI XH))))))) :: ((Npos (XI (XO
    (XI (XO (XO (XI XH))))))) :: ((Npos (XO (XI (XI (XO (XI
    XH)))))) :: [])))) :: (((Npos (XO (XO (XI (XI (XI (XO XH))))))) :: ((Npos
    (XO (XO (XO (XI (XI (XI XH))))))) :: ((Npos (XI (XO (XI (XO (XO (XI
    XH))))))) :: ((Npos (XI (XI (XI (XO (XI XH)))))) :: [])))) :: (((Npos (XO
    (XO (XI (XI (XI (XO XH))))))) :: ((Npos (XO (XO (XO (XI (XI (XI
    XH))))))) :: ((Npos (XI (XO (XI (XO (XO (XI XH))))))) :: ((Npos (XO (XO
    (XO (XI (XI XH)))))) :: [])))) :: (((Npos (XO (XO (XI (XI (XI (XO
    XH))))))) :: ((Npos (XO (XO (XO (XI (XI (XI XH))))))) :: ((Npos (XI (XO
    (XI (XO (XO (XI XH))))))) :: ((Npos (XI (XO (XO (XI (XI
    XH)))))) :: [])))) :: (((Npos (XO (XO (XI (XI (XI (XO XH))))))) :: ((Npos
    (XO (XO (XO (XI (XI (XI XH))))))) :: ((Npos (XI (XO (XI (XO (XO (XI
    XH))))))) :: ((Npos (XI (XO (XO (XO (XO (XI
    XH))))))) :: [])))) :: (((Npos (XO (XO (XI (XI (XI (XO
    XH))))))) :: ((Npos (XO (XO (XO (XI (XI (XI XH))))))) :: ((Npos (XI (XO
    (XI (XO (XO (XI XH))))))) :: ((Npos (XO (XI (XO (XO (XO (XI
    XH))))))) :: [])))) :: (((Npos (XO (XO (XI (XI (XI (XO
    XH))))))) :: ((Npos (XO (XO (XO (XI (XI (XI XH))))))) :: ((Npos (XI (XO
    (XI (XO (XO (XI XH))))))) :: ((Npos (XI (XI (XO (XO (XO (XI
    XH))))))) :: [])))) :: (((Npos (XO (XO (XI (XI (XI (XO
    XH))))))) :: ((Npos (XO (XO (XO (XI (XI (XI XH))))))) :: ((Npos (XI (XO
    (XI (XO (XO (XI XH))))))) :: ((Npos (XO (XO (XI (XO (XO (XI
    XH))))))) :: [])))) :: (((Npos (XO (XO (XI (XI (XI (XO
    XH))))))) :: ((Npos (XO (XO (XO (XI (XI (XI XH))))))) :: ((Npos (XI (XO
    (XI (XO (XO (XI XH))))))) :: ((Npos (XI (XO (XI (XO (XO (XI
    XH))))))) :: [])))) :: (((Npos (XO (XO (XI (XI (XI (XO
    XH))))))) :: ((Npos (XO (XO (XO (XI (XI (XI XH))))))) :: ((Npos (XI (XO
    (XI (XO (XO (XI XH))))))) :: ((Npos (XO (XI (XI (XO (XO (XI
    XH))))))) :: [])))) :: (((Npos (XO (XO (XI (XI (XI (XO
    XH))))))) :: ((Npos (XO (XO (XO (XI (XI (XI XH))))))) :: ((Npos (XO (XI
    (XI (XO (XO (XI XH))))))) :: ((Npos (XO (XO (XO (XO (XI
    XH)))))) :: [])))) :: (((Npos (XO (XO (XI (XI (XI (XO XH))))))) :: ((Npos
    (XO (XO (XO (XI (XI (XI XH))))))) :: ((Npos (XO (XI (XI (XO (XO (XI
    XH))))))) :: ((Npos (XI (XO (XO (XO (XI XH)))))) :: [])))) :: (((Npos (XO
    (XO (XI (XI (XI (XO XH))))))) :: ((Npos (XO (XO (XO (XI (XI (XI
    XH))))))) :: ((Npos (XO (XI (XI (XO (XO (XI XH))))))) :: ((Npos (XO (XI
    (XO (XO (XI XH)))))) :: [])))) :: (((Npos (XO (XO (XI (XI (XI (XO
    XH))))))) :: ((Npos (XO (XO (XO (XI (XI (XI XH))))))) :: ((Npos (XO (XI
    (XI (XO (XO (XI XH))))))) :: ((Npos (XI (XI (XO (XO (XI
    XH)))))) :: [])))) :: (((Npos (XO (XO (XI (XI (XI (XO XH))))))) :: ((Npos
    (XO (XO (XO (XI (XI (XI XH))))))) :: ((Npos (XO (XI (XI (XO (XO (XI
    XH))))))) :: ((Npos (XO (XO (XI (XO (XI XH)))))) :: [])))) :: (((Npos (XO
    (XO (XI (XI (XI (XO XH))))))) :: ((Npos (XO (XO (XO (XI (XI (XI
    XH))))))) :: ((Npos (XO (XI (XI (XO (XO (XI XH))))))) :: ((Npos (XI (XO
    (XI (XO (XI XH)))))) :: [])))) :: (((Npos (XO (XO (XI (XI (XI (XO
    XH))))))) :: ((Npos (XO (XO (XO (XI (XI (XI XH))))))) :: ((Npos (XO (XI
    (XI (XO (XO (XI XH))))))) :: ((Npos (XO (XI (XI (XO (XI
    XH)))))) :: [])))) :: (((Npos (XO (XO (XI (XI (XI (XO XH))))))) :: ((Npos
    (XO (XO (XO (XI (XI (XI XH))))))) :: ((Npos (XO (XI (XI (XO (XO (XI
    XH))))))) :: ((Npos (XI (XI (XI (XO (XI XH)))))) :: [])))) :: (((Npos (XO
    (XO (XI (XI (XI (XO XH))))))) :: ((Npos (XO (XO (XO (XI (XI (XI
    XH))))))) :: ((Npos (XO (XI (XI (XO (XO (XI XH))))))) :: ((Npos (XO (XO
    (XO (XI (XI XH)))))) :: [])))) :: (((Npos (XO (XO (XI (XI (XI (XO
    XH))))))) :: ((Npos (XO (XO (XO (XI (XI (XI XH))))))) :: ((Npos (XO (XI
    (XI (XO (XO (XI XH))))))) :: ((Npos (XI (XO (XO (XI (XI
    XH)))))) :: [])))) :: (((Npos (XO (XO (XI (XI (XI (XO XH))))))) :: ((Npos
    (XO (XO (XO (XI (XI (XI XH))))))) :: ((Npos (XO (XI (XI (XO (XO (XI
    XH))))))) :: ((Npos (XI (XO (XO (XO (XO (XI
    XH))))))) :: [])))) :: (((Npos (XO (XO (XI (XI (XI (XO
    XH))))))) :: ((Npos (XO (XO (XO (XI (XI (XI XH))))))) :: ((Npos (XO (XI
    (XI (XO (XO (XI XH))))))) :: ((Npos (XO (XI (XO (XO (XO (XI
    XH))))))) :: [])))) :: (((Npos (XO (XO (XI (XI (XI (XO
    XH))))))) :: ((Npos (XO (XO (XO (XI (XI (XI XH))))))) :: ((Npos (XO (XI
    (XI (XO (XO (XI XH))))))) :: ((Npos (XI (XI (XO (XO (XO (XI
    XH))))))) :: [])))) :: (((Npos (XO (XO (XI (XI (XI (XO
    XH))))))) :: ((Npos (XO (XO (XO (XI (XI (XI XH))))))) :: ((Npos (XO (XI
    (XI (XO (XO (XI XH))))))) :: ((Npos (XO (XO (XI (XO (XO (XI
    XH))))))) :: [])))) :: (((Npos (XO (XO (XI (XI (XI (XO
    XH))))))) :: ((Npos (XO (XO (XO (XI (XI (XI XH))))))) :: ((Npos (XO (XI
    (XI (XO (XO (XI XH))))))) :: ((Npos (XI (XO (XI (XO (XO (XI
    XH))))))) :: [])))) :: (((Npos (XO (XO (XI (XI (XI (XO
    XH))))))) :: ((Npos (XO (XO (XO (XI (XI (XI XH))))))) :: ((Npos (XO (XI
    (XI (XO (XO (XI XH))))))) :: ((Npos (XO (XI (XI (XO (XO (XI
    XH))))))) :: [])))) :: (((Npos (XO (XO (XO (XO (XO (XO (XO (XO
    XH))))))))) :: []) :: (((Npos (XI (XO (XO (XO (XO (XO (XO (XO
    XH))))))))) :: []) :: (((Npos (XO (XI (XO (XO (XO (XO (XO (XO
    XH))))))))) :: []) :: (((Npos (XI (XI (XO (XO (XO (XO (XO (XO
    XH))))))))) :: []) :: (((Npos (XO (XO (XI (XO (XO (XO (XO (XO
    XH))))))))) :: []) :: (((Npos (XI (XO (XI (XO (XO (XO (XO (XO
    XH))))))))) :: []) :: (((Npos (XO (XI (XI (XO (XO (XO (XO (XO
    XH))))))))) :: []) :: (((Npos (XI (XI (XI (XO (XO (XO (XO (XO
    XH))))))))) :: []) :: (((Npos (XO (XO (XO (XI (XO (XO (XO (XO
    XH))))))))) :: []) :: (((Npos (XI (XO (XO (XI (XO (XO (XO (XO
    XH))))))))) :: []) :: (((Npos (XO (XI (XO (XI (XO (XO (XO (XO
    XH))))))))) :: []) :: (((Npos (XI (XI (XO (XI (XO (XO (XO (XO
    XH))))))))) :: []) :: (((Npos (XO (XO (XI (XI (XO (XO (XO (XO
    XH))))))))) :: []) :: (((Npos (XI (XO (XI (XI (XO (XO (XO (XO
    XH))))))))) :: []) :: (((Npos (XO (XI (XI (XI (XO (XO (XO (XO
    XH))))))))) :: []) :: (((Npos (XI (XI (XI (XI (XO (XO (XO (XO
    XH))))))))) :: []) :: (((Npos (XO (XO (XO (XO (XI (XO (XO (XO
    XH))))))))) :: []) :: (((Npos (XI (XO (XO (XO (XI (XO (XO (XO
    XH))))))))) :: []) :: (((Npos (XO (XI (XO (XO (XI (XO (XO (XO
    XH))))))))) :: []) :: (((Npos (XI (XI (XO (XO (XI (XO (XO (XO
    XH))))))))) :: []) :: (((Npos (XO (XO (XI (XO (XI (XO (XO (XO
    XH))))))))) :: []) :: (((Npos (XI (XO (XI (XO (XI (XO (XO (XO
    XH))))))))) :: []) :: (((Npos (XO (XI (XI (XO (XI (XO (XO (XO
    XH))))))))) :: []) :: (((Npos (XI (XI (XI (XO (XI (XO (XO (XO
    XH))))))))) :: []) :: (((Npos (XO (XO (XO (XI (XI (XO (XO (XO
    XH))))))))) :: []) :: (((Npos (XI (XO (XO (XI (XI (XO (XO (XO
    XH))))))))) :: []) :: (((Npos (XO (XI (XO (XI (XI (XO (XO (XO
    XH))))))))) :: []) :: (((Npos (XI (XI (XO (XI (XI (XO (XO (XO
    XH))))))))) :: []) :: (((Npos (XO (XO (XI (XI (XI (XO (XO (XO
    XH))))))))) :: []) :: (((Npos (XI (XO (XI (XI (XI (XO (XO (XO
    XH))))))))) :: []) :: (((Npos (XO (XI (XI (XI (XI (XO (XO (XO
    XH))))))))) :: []) :: (((Npos (XI (XI (XI (XI (XI (XO (XO (XO
    XH))))))))) :: []) :: (((Npos (XO (XO (XO (XO (XO (XI (XO (XO
    XH))))))))) :: []) :: (((Npos (XI (XO (XO (XO (XO (XI (XO (XO
    XH))))))))) :: []) :: (((Npos (XO (XI (XO (XO (XO (XI (XO (XO
    XH))))))))) :: []) :: (((Npos (XI (XI (XO (XO (XO (XI (XO (XO
    XH))))))))) :: []) :: (((Npos (XO (XO (XI (XO (XO (XI (XO (XO
    XH))))))))) :: []) :: (((Npos (XI (XO (XI (XO (XO (XI (XO (XO
    XH))))))))) :: []) :: (((Npos (XO (XI (XI (XO (XO (XI (XO (XO
    XH))))))))) :: []) :: (((Npos (XI (XI (XI (XO (XO (XI (XO (XO
    XH))))))))) :: []) :: (((Npos (XO (XO (XO (XI (XO (XI (XO (XO
    XH))))))))) :: []) :: (((Npos (XI (XO (XO (XI (XO (XI (XO (XO
    XH))))))))) :: []) :: (((Npos (XO (XI (XO (XI (XO (XI (XO (XO
    XH))))))))) :: []) :: (((Npos (XI (XI (XO (XI (XO (XI (XO (XO
    XH))))))))) :: []) :: (((Npos (XO (XO (XI (XI (XO (XI (XO (XO
    XH))))))))) :: []) :: (((Npos (XI (XO (XI (XI (XO (XI (XO (XO
    XH))))))))) :: []) :: (((Npos (XO (XI (XI (XI (XO (XI (XO (XO
    XH))))))))) :: []) :: (((Npos (XI (XI (XI (XI (XO (XI (XO (XO
    XH))))))))) :: []) :: (((Npos (XO (XO (XO (XO (XI (XI (XO (XO
    XH))))))))) :: []) :: (((Npos (XI (XO (XO (XO (XI (XI (XO (XO
    XH))))))))) :: []) :: (((Npos (XO (XI (XO (XO (XI (XI (XO (XO
    XH))))))))) :: []) :: (((Npos (XI (XI (XO (XO (XI (XI (XO (XO
    XH))))))))) :: []) :: (((Npos (XO (XO (XI (XO (XI (XI (XO (XO
    XH))))))))) :: []) :: (((Npos (XI (XO (XI (XO (XI (XI (XO (XO
    XH))))))))) :: []) :: (((Npos (XO (XI (XI (XO (XI (XI (XO (XO
    XH))))))))) :: []) :: (((Npos (XI (XI (XI (XO (XI (XI (XO (XO
    XH))))))))) :: []) :: (((Npos (XO (XO (XO (XI (XI (XI (XO (XO
    XH))))))))) :: []) :: (((Npos (XI (XO (XO (XI (XI (XI (XO (XO
    XH))))))))) :: []) :: (((Npos (XO (XI (XO (XI (XI (XI (XO (XO
    XH))))))))) :: []) :: (((Npos (XI (XI (XO (XI (XI (XI (XO (XO
    XH))))))))) :: []) :: (((Npos (XO (XO (XI (XI (XI (XI (XO (XO
    XH))))))))) :: []) :: (((Npos (XI (XO (XI (XI (XI (XI (XO (XO
    XH))))))))) :: []) :: (((Npos (XO (XI (XI (XI (XI (XI (XO (XO
    XH))))))))) :: []) :: (((Npos (XI (XI (XI (XI (XI (XI (XO (XO
    XH))))))))) :: []) :: (((Npos (XO (XO (XO (XO (XO (XO (XI (XO
    XH))))))))) :: []) :: (((Npos (XI (XO (XO (XO (XO (XO (XI (XO
    XH))))))))) :: []) :: (((Npos (XO (XI (XO (XO (XO (XO (XI (XO
    XH))))))))) :: []) :: (((Npos (XI (XI (XO (XO (XO (XO (XI (XO
    XH))))))))) :: []) :: (((Npos (XO (XO (XI (XO (XO (XO (XI (XO
    XH))))))))) :: []) :: (((Npos (XI (XO (XI (XO (XO (XO (XI (XO
    XH))))))))) :: []) :: (((Npos (XO (XI (XI (XO (XO (XO (XI (XO
    XH))))))))) :: []) :: (((Npos (XI (XI (XI (XO (XO (XO (XI (XO
    XH))))))))) :: []) :: (((Npos (XO (XO (XO (XI (XO (XO (XI (XO
    XH))))))))) :: []) :: (((Npos (XI (XO (XO (XI (XO (XO (XI (XO
    XH))))))))) :: []) :: (((Npos (XO (XI (XO (XI (XO (XO (XI (XO
    XH))))))))) :: []) :: (((Npos (XI (XI (XO (XI (XO (XO (XI (XO
    XH))))))))) :: []) :: (((Npos (XO (XO (XI (XI (XO (XO (XI (XO
    XH))))))))) :: []) :: (((Npos (XI (XO (XI (XI (XO (XO (XI (XO
    XH))))))))) :: []) :: (((Npos (XO (XI (XI (XI (XO (XO (XI (XO
    XH))))))))) :: []) :: (((Npos (XI (XI (XI (XI (XO (XO (XI (XO
    XH))))))))) :: []) :: (((Npos (XO (XO (XO (XO (XI (XO (XI (XO
    XH))))))))) :: []) :: (((Npos (XI (XO (XO (XO (XI (XO (XI (XO
    XH))))))))) :: []) :: (((Npos (XO (XI (XO (XO (XI (XO (XI (XO
    XH))))))))) :: []) :: (((Npos (XI (XI (XO (XO (XI (XO (XI (XO
    XH))))))))) :: []) :: (((Npos (XO (XO (XI (XO (XI (XO (XI (XO
    XH))))))))) :: []) :: (((Npos (XI (XO (XI (XO (XI (XO (XI (XO
    XH))))))))) :: []) :: (((Npos (XO (XI (XI (XO (XI (XO (XI (XO
    XH))))))))) :: []) :: (((Npos (XI (XI (XI (XO (XI (XO (XI (XO
    XH))))))))) :: []) :: (((Npos (XO (XO (XO (XI (XI (XO (XI (XO
    XH))))))))) :: []) :: (((Npos (XI (XO (XO (XI (XI (XO (XI (XO
    XH))))))))) :: []) :: (((Npos (XO (XI (XO (XI (XI (XO (XI (XO
    XH))))))))) :: []) :: (((Npos (XI (XI (XO (XI (XI (XO (XI (XO
    XH))))))))) :: []) :: (((Npos (XO (XO (XI (XI (XI (XO (XI (XO
    XH))))))))) :: []) :: (((Npos (XI (XO (XI (XI (XI (XO (XI (XO
    XH))))))))) :: []) :: (((Npos (XO (XI (XI (XI (XI (XO (XI (XO
    XH))))))))) :: []) :: (((Npos (XI (XI (XI (XI (XI (XO (XI (XO
    XH))))))))) :: []) :: (((Npos (XO (XO (XO (XO (XO (XI (XI (XO
    XH))))))))) :: []) :: (((Npos (XI (XO (XO (XO (XO (XI (XI (XO
    XH))))))))) :: []) :: (((Npos (XO (XI (XO (XO (XO (XI (XI (XO
    XH))))))))) :: []) :: (((Npos (XI (XI (XO (XO (XO (XI (XI (XO
    XH))))))))) :: []) :: (((Npos (XO (XO (XI (XO (XO (XI (XI (XO
    XH))))))))) :: []) :: (((Npos (XI (XO (XI (XO (XO (XI (XI (XO
    XH))))))))) :: []) :: (((Npos (XO (XI (XI (XO (XO (XI (XI (XO
    XH))))))))) :: []) :: (((Npos (XI (XI (XI (XO (XO (XI (XI (XO
    XH))))))))) :: []) :: (((Npos (XO (XO (XO (XI (XO (XI (XI (XO
    XH))))))))) :: []) :: (((Npos (XI (XO (XO (XI (XO (XI (XI (XO
    XH))))))))) :: []) :: (((Npos (XO (XI (XO (XI (XO (XI (XI (XO
    XH))))))))) :: []) :: (((Npos (XI (XI (XO (XI (XO (XI (XI (XO
    XH))))))))) :: []) :: (((Npos (XO (XO (XI (XI (XO (XI (XI (XO
    XH))))))))) :: []) :: (((Npos (XI (XO (XI (XI (XO (XI (XI (XO
    XH))))))))) :: []) :: (((Npos (XO (XI (XI (XI (XO (XI (XI (XO
    XH))))))))) :: []) :: (((Npos (XI (XI (XI (XI (XO (XI (XI (XO
    XH))))))))) :: []) :: (((Npos (XO (XO (XO (XO (XI (XI (XI (XO
    XH))))))))) :: []) :: (((Npos (XI (XO (XO (XO (XI (XI (XI (XO
    XH))))))))) :: []) :: (((Npos (XO (XI (XO (XO (XI (XI (XI (XO
    XH))))))))) :: []) :: (((Npos (XI (XI (XO (XO (XI (XI (XI (XO
    XH))))))))) :: []) :: (((Npos (XO (XO (XI (XO (XI (XI (XI (XO
    XH))))))))) :: []) :: (((Npos (XI (XO (XI (XO (XI (XI (XI (XO
    XH))))))))) :: []) :: (((Npos (XO (XI (XI (XO (XI (XI (XI (XO
    XH))))))))) :: []) :: (((Npos (XI (XI (XI (XO (XI (XI (XI (XO
    XH))))))))) :: []) :: (((Npos (XO (XO (XO (XI (XI (XI (XI (XO
    XH))))))))) :: []) :: (((Npos (XI (XO (XO (XI (XI (XI (XI (XO
    XH))))))))) :: []) :: (((Npos (XO (XI (XO (XI (XI (XI (XI (XO
    XH))))))))) :: []) :: (((Npos (XI (XI (XO (XI (XI (XI (XI (XO
    XH))))))))) :: []) :: (((Npos (XO (XO (XI (XI (XI (XI (XI (XO
    XH))))))))) :: []) :: (((Npos (XI (XO (XI (XI (XI (XI (XI (XO
    XH))))))))) :: []) :: (((Npos (XO (XI (XI (XI (XI (XI (XI (XO
    XH))))))))) :: []) :: (((Npos (XI (XI (XI (XI (XI (XI (XI (XO
    XH))))))))) :: []) :: (((Npos (XO (XO (XO (XO (XO (XO (XO (XI
    XH))))))))) :: []) :: (((Npos (XI (XO (XO (XO (XO (XO (XO (XI
    XH))))))))) :: []) :: (((Npos (XO (XI (XO (XO (XO (XO (XO (XI
    XH))))))))) :: []) :: (((Npos (XI (XI (XO (XO (XO (XO (XO (XI
    XH))))))))) :: []) :: (((Npos (XO (XO (XI (XO (XO (XO (XO (XI
    XH))))))))) :: []) :: (((Npos (XI (XO (XI (XO (XO (XO (XO (XI
    XH))))))))) :: []) :: (((Npos (XO (XI (XI (XO (XO (XO (XO (XI
    XH))))))))) :: []) :: (((Npos (XI (XI (XI (XO (XO (XO (XO (XI
    XH))))))))) :: []) :: (((Npos (XO (XO (XO (XI (XO (XO (XO (XI
    XH))))))))) :: []) :: (((Npos (XI (XO (XO (XI (XO (XO (XO (XI
    XH))))))))) :: []) :: (((Npos (XO (XI (XO (XI (XO (XO (XO (XI
    XH))))))))) :: []) :: (((Npos (XI (XI (XO (XI (XO (XO (XO (XI
    XH))))))))) :: []) :: (((Npos (XO (XO (XI (XI (XO (XO (XO (XI
    XH))))))))) :: []) :: (((Npos (XI (XO (XI (XI (XO (XO (XO (XI
    XH))))))))) :: []) :: (((Npos (XO (XI (XI (XI (XO (XO (XO (XI
    XH))))))))) :: []) :: (((Npos (XI (XI (XI (XI (XO (XO (XO (XI
    XH))))))))) :: []) :: (((Npos (XO (XO (XO (XO (XI (XO (XO (XI
    XH))))))))) :: []) :: (((Npos (XI (XO (XO (XO (XI (XO (XO (XI
    XH))))))))) :: []) :: (((Npos (XO (XI (XO (XO (XI (XO (XO (XI
    XH))))))))) :: []) :: (((Npos (XI (XI (XO (XO (XI (XO (XO (XI
    XH))))))))) :: []) :: (((Npos (XO (XO (XI (XO (XI (XO (XO (XI
    XH))))))))) :: []) :: (((Npos (XI (XO (XI (XO (XI (XO (XO (XI
    XH))))))))) :: []) :: (((Npos (XO (XI (XI (XO (XI (XO (XO (XI
    XH))))))))) :: []) :: (((Npos (XI (XI (XI (XO (XI (XO (XO (XI
    XH))))))))) :: []) :: (((Npos (XO (XO (XO (XI (XI (XO (XO (XI
    XH))))))))) :: []) :: (((Npos (XI (XO (XO (XI (XI (XO (XO (XI
    XH))))))))) :: []) :: (((Npos (XO (XI (XO (XI (XI (XO (XO (XI
    XH))))))))) :: []) :: (((Npos (XI (XI (XO (XI (XI (XO (XO (XI
    XH))))))))) :: []) :: (((Npos (XO (XO (XI (XI (XI (XO (XO (XI
    XH))))))))) :: []) :: (((Npos (XI (XO (XI (XI (XI (XO (XO (XI
    XH))))))))) :: []) :: (((Npos (XO (XI (XI (XI (XI (XO (XO (XI
    XH))))))))) :: []) :: (((Npos (XI (XI (XI (XI (XI (XO (XO (XI
    XH))))))))) :: []) :: (((Npos (XO (XO (XO (XO (XO (XI (XO (XI
    XH))))))))) :: []) :: (((Npos (XI (XO (XO (XO (XO (XI (XO (XI
    XH))))))))) :: []) :: (((Npos (XO (XI (XO (XO (XO (XI (XO (XI
    XH))))))))) :: []) :: (((Npos (XI (XI (XO (XO (XO (XI (XO (XI
    XH))))))))) :: []) :: (((Npos (XO (XO (XI (XO (XO (XI (XO (XI
    XH))))))))) :: []) :: (((Npos (XI (XO (XI (XO (XO (XI (XO (XI
    XH))))))))) :: []) :: (((Npos (XO (XI (XI (XO (XO (XI (XO (XI
    XH))))))))) :: []) :: (((Npos (XI (XI (XI (XO (XO (XI (XO (XI
    XH))))))))) :: []) :: (((Npos (XO (XO (XO (XI (XO (XI (XO (XI
    XH))))))))) :: []) :: (((Npos (XI (XO (XO (XI (XO (XI (XO (XI
    XH))))))))) :: []) :: (((Npos (XO (XI (XO (XI (XO (XI (XO (XI
    XH))))))))) :: []) :: (((Npos (XI (XI (XO (XI (XO (XI (XO (XI
    XH))))))))) :: []) :: (((Npos (XO (XO (XI (XI (XO (XI (XO (XI
    XH))))))))) :: []) :: (((Npos (XI (XO (XI (XI (XO (XI (XO (XI
    XH))))))))) :: []) :: (((Npos (XO (XI (XI (XI (XO (XI (XO (XI
    XH))))))))) :: []) :: (((Npos (XI (XI (XI (XI (XO (XI (XO (XI
    XH))))))))) :: []) :: (((Npos (XO (XO (XO (XO (XI (XI (XO (XI
    XH))))))))) :: []) :: (((Npos (XI (XO (XO (XO (XI (XI (XO (XI
    XH))))))))) :: []) :: (((Npos (XO (XI (XO (XO (XI (XI (XO (XI
    XH))))))))) :: []) :: (((Npos (XI (XI (XO (XO (XI (XI (XO (XI
    XH))))))))) :: []) :: (((Npos (XO (XO (XI (XO (XI (XI (XO (XI
    XH))))))))) :: []) :: (((Npos (XI (XO (XI (XO (XI (XI (XO (XI
    XH))))))))) :: []) :: (((Npos (XO (XI (XI (XO (XI (XI (XO (XI
    XH))))))))) :: []) :: (((Npos (XI (XI (XI (XO (XI (XI (XO (XI
    XH))))))))) :: []) :: (((Npos (XO (XO (XO (XI (XI (XI (XO (XI
    XH))))))))) :: []) :: (((Npos (XI (XO (XO (XI (XI (XI (XO (XI
    XH))))))))) :: []) :: (((Npos (XO (XI (XO (XI (XI (XI (XO (XI
    XH))))))))) :: []) :: (((Npos (XI (XI (XO (XI (XI (XI (XO (XI
    XH))))))))) :: []) :: (((Npos (XO (XO (XI (XI (XI (XI (XO (XI
    XH))))))))) :: []) :: (((Npos (XI (XO (XI (XI (XI (XI (XO (XI
    XH))))))))) :: []) :: (((Npos (XO (XI (XI (XI (XI (XI (XO (XI
    XH))))))))) :: []) :: (((Npos (XI (XI (XI (XI (XI (XI (XO (XI
    XH))))))))) :: []) :: (((Npos (XO (XO (XO (XO (XO (XO (XI (XI
    XH))))))))) :: []) :: (((Npos (XI (XO (XO (XO (XO (XO (XI (XI
    XH))))))))) :: []) :: (((Npos (XO (XI (XO (XO (XO (XO (XI (XI
    XH))))))))) :: []) :: (((Npos (XI (XI (XO (XO (XO (XO (XI (XI
    XH))))))))) :: []) :: (((Npos (XO (XO (XI (XO (XO (XO (XI (XI
    XH))))))))) :: []) :: (((Npos (XI (XO (XI (XO (XO (XO (XI (XI
    XH))))))))) :: []) :: (((Npos (XO (XI (XI (XO (XO (XO (XI (XI
    XH))))))))) :: []) :: (((Npos (XI (XI (XI (XO (XO (XO (XI (XI
    XH))))))))) :: []) :: (((Npos (XO (XO (XO (XI (XO (XO (XI (XI
    XH))))))))) :: []) :: (((Npos (XI (XO (XO (XI (XO (XO (XI (XI
    XH))))))))) :: []) :: (((Npos (XO (XI (XO (XI (XO (XO (XI (XI
    XH))))))))) :: []) :: (((Npos (XI (XI (XO (XI (XO (XO (XI (XI
    XH))))))))) :: []) :: (((Npos (XO (XO (XI (XI (XO (XO (XI (XI
    XH))))))))) :: []) :: (((Npos (XI (XO (XI (XI (XO (XO (XI (XI
    XH))))))))) :: []) :: (((Npos (XO (XI (XI (XI (XO (XO (XI (XI
    XH))))))))) :: []) :: (((Npos (XI (XI (XI (XI (XO (XO (XI (XI
    XH))))))))) :: []) :: (((Npos (XO (XO (XO (XO (XI (XO (XI (XI
    XH))))))))) :: []) :: (((Npos (XI (XO (XO (XO (XI (XO (XI (XI
    XH))))))))) :: []) :: (((Npos (XO (XI (XO (XO (XI (XO (XI (XI
    XH))))))))) :: []) :: (((Npos (XI (XI (XO (XO (XI (XO (XI (XI
    XH))))))))) :: []) :: (((Npos (XO (XO (XI (XO (XI (XO (XI (XI
    XH))))))))) :: []) :: (((Npos (XI (XO (XI (XO (XI (XO (XI (XI
    XH))))))))) :: []) :: (((Npos (XO (XI (XI (XO (XI (XO (XI (XI
    XH))))))))) :: []) :: (((Npos (XI (XI (XI (XO (XI (XO (XI (XI
    XH))))))))) :: []) :: (((Npos (XO (XO (XO (XI (XI (XO (XI (XI
    XH))))))))) :: []) :: (((Npos (XI (XO (XO (XI (XI (XO (XI (XI
    XH))))))))) :: []) :: (((Npos (XO (XI (XO (XI (XI (XO (XI (XI
    XH))))))))) :: []) :: (((Npos (XI (XI (XO (XI (XI (XO (XI (XI
    XH))))))))) :: []) :: (((Npos (XO (XO (XI (XI (XI (XO (XI (XI
    XH))))))))) :: []) :: (((Npos (XI (XO (XI (XI (XI (XO (XI (XI
    XH))))))))) :: []) :: (((Npos (XO (XI (XI (XI (XI (XO (XI (XI
    XH))))))))) :: []) :: (((Npos (XI (XI (XI (XI (XI (XO (XI (XI
    XH))))))))) :: []) :: (((Npos (XO (XO (XO (XO (XO (XI (XI (XI
    XH))))))))) :: []) :: (((Npos (XI (XO (XO (XO (XO (XI (XI (XI
    XH))))))))) :: []) :: (((Npos (XO (XI (XO (XO (XO (XI (XI (XI
    XH))))))))) :: []) :: (((Npos (XI (XI (XO (XO (XO (XI (XI (XI
    XH))))))))) :: []) :: (((Npos (XO (XO (XI (XO (XO (XI (XI (XI
    XH))))))))) :: []) :: (((Npos (XI (XO (XI (XO (XO (XI (XI (XI
    XH))))))))) :: []) :: (((Npos (XO (XI (XI (XO (XO (XI (XI (XI
    XH))))))))) :: []) :: (((Npos (XI (XI (XI (XO (XO (XI (XI (XI
    XH))))))))) :: []) :: (((Npos (XO (XO (XO (XI (XO (XI (XI (XI
    XH))))))))) :: []) :: (((Npos (XI (XO (XO (XI (XO (XI (XI (XI
    XH))))))))) :: []) :: (((Npos (XO (XI (XO (XI (XO (XI (XI (XI
    XH))))))))) :: []) :: (((Npos (XI (XI (XO (XI (XO (XI (XI (XI
    XH))))))))) :: []) :: (((Npos (XO (XO (XI (XI (XO (XI (XI (XI
    XH))))))))) :: []) :: (((Npos (XI (XO (XI (XI (XO (XI (XI (XI
    XH))))))))) :: []) :: (((Npos (XO (XI (XI (XI (XO (XI (XI (XI
    XH))))))))) :: []) :: (((Npos (XI (XI (XI (XI (XO (XI (XI (XI
    XH))))))))) :: []) :: (((Npos (XO (XO (XO (XO (XI (XI (XI (XI
    XH))))))))) :: []) :: (((Npos (XI (XO (XO (XO (XI (XI (XI (XI
    XH))))))))) :: []) :: (((Npos (XO (XI (XO (XO (XI (XI (XI (XI
    XH))))))))) :: []) :: (((Npos (XI (XI (XO (XO (XI (XI (XI (XI
    XH))))))))) :: []) :: (((Npos (XO (XO (XI (XO (XI (XI (XI (XI
    XH))))))))) :: []) :: (((Npos (XI (XO (XI (XO (XI (XI (XI (XI
    XH))))))))) :: []) :: (((Npos (XO (XI (XI (XO (XI (XI (XI (XI
    XH))))))))) :: []) :: (((Npos (XI (XI (XI (XO (XI (XI (XI (XI
    XH))))))))) :: []) :: (((Npos (XO (XO (XO (XI (XI (XI (XI (XI
    XH))))))))) :: []) :: (((Npos (XI (XO (XO (XI (XI (XI (XI (XI
    XH))))))))) :: []) :: (((Npos (XO (XI (XO (XI (XI (XI (XI (XI
    XH))))))))) :: []) :: (((Npos (XI (XI (XO (XI (XI (XI (XI (XI
    XH))))))))) :: []) :: (((Npos (XO (XO (XI (XI (XI (XI (XI (XI
    XH))))))))) :: []) :: (((Npos (XI (XO (XI (XI (XI (XI (XI (XI
    XH))))))))) :: []) :: (((Npos (XO (XI (XI (XI (XI (XI (XI (XI
    XH))))))))) :: []) :: (((Npos (XI (XI (XI (XI (XI (XI (XI (XI
    XH))))))))) :: []) :: (((Npos (XO (XO (XO (XO (XO (XO (XO (XO (XO
    XH)))))))))) :: []) :: (((Npos (XI (XO (XO (XO (XO (XO (XO (XO (XO
    XH)))))))))) :: []) :: (((Npos (XO (XI (XO (XO (XO (XO (XO (XO (XO
    XH)))))))))) :: []) :: (((Npos (XI (XI (XO (XO (XO (XO (XO (XO (XO
    XH)))))))))) :: []) :: (((Npos (XO (XO (XI (XO (XO (XO (XO (XO (XO
    XH)))))))))) :: []) :: (((Npos (XI (XO (XI (XO (XO (XO (XO (XO (XO
    XH)))))))))) :: []) :: (((Npos (XO (XI (XI (XO (XO (XO (XO (XO (XO
    XH)))))))))) :: []) :: (((Npos (XI (XI (XI (XO (XO (XO (XO (XO (XO
    XH)))))))))) :: []) :: (((Npos (XO (XO (XO (XI (XO (XO (XO (XO (XO
    XH)))))))))) :: []) :: (((Npos (XI (XO (XO (XI (XO (XO (XO (XO (XO
    XH)))))))))) :: []) :: (((Npos (XO (XI (XO (XI (XO (XO (XO (XO (XO
    XH)))))))))) :: []) :: (((Npos (XI (XI (XO (XI (XO (XO (XO (XO (XO
    XH)))))))))) :: []) :: (((Npos (XO (XO (XI (XI (XO (XO (XO (XO (XO
    XH)))))))))) :: []) :: (((Npos (XI (XO (XI (XI (XO (XO (XO (XO (XO
    XH)))))))))) :: []) :: (((Npos (XO (XI (XI (XI (XO (XO (XO (XO (XO
    XH)))))))))) :: []) :: (((Npos (XI (XI (XI (XI (XO (XO (XO (XO (XO
    XH)))))))))) :: []) :: (((Npos (XO (XO (XO (XO (XI (XO (XO (XO (XO
    XH)))))))))) :: []) :: (((Npos (XI (XO (XO (XO (XI (XO (XO (XO (XO
    XH)))))))))) :: []) :: (((Npos (XO (XI (XO (XO (XI (XO (XO (XO (XO
    XH)))))))))) :: []) :: (((Npos (XI (XI (XO (XO (XI (XO (XO (XO (XO
    XH)))))))))) :: []) :: (((Npos (XO (XO (XI (XO (XI (XO (XO (XO (XO
    XH)))))))))) :: []) :: (((Npos (XI (XO (XI (XO (XI (XO (XO (XO (XO
    XH)))))))))) :: []) :: (((Npos (XO (XI (XI (XO (XI (XO (XO (XO (XO
    XH)))))))))) :: []) :: (((Npos (XI (XI (XI (XO (XI (XO (XO (XO (XO
    XH)))))))))) :: []) :: (((Npos (XO (XO (XO (XI (XI (XO (XO (XO (XO
    XH)))))))))) :: []) :: (((Npos (XI (XO (XO (XI (XI (XO (XO (XO (XO
    XH)))))))))) :: []) :: (((Npos (XO (XI (XO (XI (XI (XO (XO (XO (XO
    XH)))))))))) :: []) :: (((Npos (XI (XI (XO (XI (XI (XO (XO (XO (XO
    XH)))))))))) :: []) :: (((Npos (XO (XO (XI (XI (XI (XO (XO (XO (XO
    XH)))))))))) :: []) :: (((Npos (XI (XO (XI (XI (XI (XO (XO (XO (XO
    XH)))))))))) :: []) :: (((Npos (XO (XI (XI (XI (XI (XO (XO (XO (XO
    XH)))))))))) :: []) :: (((Npos (XI (XI (XI (XI (XI (XO (XO (XO (XO
    XH)))))))))) :: []) :: (((Npos (XO (XO (XO (XO (XO (XI (XO (XO (XO
    XH)))))))))) :: []) :: (((Npos (XI (XO (XO (XO (XO (XI (XO (XO (XO
    XH)))))))))) :: []) :: (((Npos (XO (XI (XO (XO (XO (XI (XO (XO (XO
    XH)))))))))) :: []) :: (((Npos (XI (XI (XO (XO (XO (XI (XO (XO (XO
    XH)))))))))) :: []) :: (((Npos (XO (XO (XI (XO (XO (XI (XO (XO (XO
    XH)))))))))) :: []) :: (((Npos (XI (XO (XI (XO (XO (XI (XO (XO (XO
    XH)))))))))) :: []) :: (((Npos (XO (XI (XI (XO (XO (XI (XO (XO (XO
    XH)))))))))) :: []) :: (((Npos (XI (XI (XI (XO (XO (XI (XO (XO (XO
    XH)))))))))) :: []) :: (((Npos (XO (XO (XO (XI (XO (XI (XO (XO (XO
    XH)))))))))) :: []) :: (((Npos (XI (XO (XO (XI (XO (XI (XO (XO (XO
    XH)))))))))) :: []) :: (((Npos (XO (XI (XO (XI (XO (XI (XO (XO (XO
    XH)))))))))) :: []) :: (((Npos (XI (XI (XO (XI (XO (XI (XO (XO (XO
    XH)))))))))) :: []) :: (((Npos (XO (XO (XI (XI (XO (XI (XO (XO (XO
    XH)))))))))) :: []) :: (((Npos (XI (XO (XI (XI (XO (XI (XO (XO (XO
    XH)))))))))) :: []) :: (((Npos (XO (XI (XI (XI (XO (XI (XO (XO (XO
    XH)))))))))) :: []) :: (((Npos (XI (XI (XI (XI (XO (XI (XO (XO (XO
    XH)))))))))) :: []) :: (((Npos (XO (XO (XO (XO (XI (XI (XO (XO (XO
    XH)))))))))) :: []) :: (((Npos (XI (XO (XO (XO (XI (XI (XO (XO (XO
    XH)))))))))) :: []) :: (((Npos (XO (XI (XO (XO (XI (XI (XO (XO (XO
    XH)))))))))) :: []) :: (((Npos (XI (XI (XO (XO (XI (XI (XO (XO (XO
    XH)))))))))) :: []) :: (((Npos (XO (XO (XI (XO (XI (XI (XO (XO (XO
    XH)))))))))) :: []) :: (((Npos (XI (XO (XI (XO (XI (XI (XO (XO (XO
    XH)))))))))) :: []) :: (((Npos (XO (XI (XI (XO (XI (XI (XO (XO (XO
    XH)))))))))) :: []) :: (((Npos (XI (XI (XI (XO (XI (XI (XO (XO (XO
    XH)))))))))) :: []) :: (((Npos (XO (XO (XO (XI (XI (XI (XO (XO (XO
    XH)))))))))) :: []) :: (((Npos (XI (XO (XO (XI (XI (XI (XO (XO (XO
    XH)))))))))) :: []) :: (((Npos (XO (XI (XO (XI (XI (XI (XO (XO (XO
    XH)))))))))) :: []) :: (((Npos (XI (XI (XO (XI (XI (XI (XO (XO (XO
    XH)))))))))) :: []) :: (((Npos (XO (XO (XI (XI (XI (XI (XO (XO (XO
    XH)))))))))) :: []) :: (((Npos (XI (XO (XI (XI (XI (XI (XO (XO (XO
    XH)))))))))) :: []) :: (((Npos (XO (XI (XI (XI (XI (XI (XO (XO (XO
    XH)))))))))) :: []) :: (((Npos (XI (XI (XI (XI (XI (XI (XO (XO (XO
    XH)))))))))) :: []) :: (((Npos (XO (XO (XO (XO (XO (XO (XI (XO (XO
    XH)))))))))) :: []) :: (((Npos (XI (XO (XO (XO (XO (XO (XI (XO (XO
    XH)))))))))) :: []) :: (((Npos (XO (XI (XO (XO (XO (XO (XI (XO (XO
    XH)))))))))) :: []) :: (((Npos (XI (XI (XO (XO (XO (XO (XI (XO (XO
    XH)))))))))) :: []) :: (((Npos (XO (XO (XI (XO (XO (XO (XI (XO (XO
    XH)))))))))) :: []) :: (((Npos (XI (XO (XI (XO (XO (XO (XI (XO (XO
    XH)))))))))) :: []) :: (((Npos (XO (XI (XI (XO (XO (XO (XI (XO (XO
    XH)))))))))) :: []) :: (((Npos (XI (XI (XI (XO (XO (XO (XI (XO (XO
    XH)))))))))) :: []) :: (((Npos (XO (XO (XO (XI (XO (XO (XI (XO (XO
    XH)))))))))) :: []) :: (((Npos (XI (XO (XO (XI (XO (XO (XI (XO (XO
    XH)))))))))) :: []) :: (((Npos (XO (XI (XO (XI (XO (XO (XI (XO (XO
    XH)))))))))) :: []) :: (((Npos (XI (XI (XO (XI (XO (XO (XI (XO (XO
    XH)))))))))) :: []) :: (((Npos (XO (XO (XI (XI (XO (XO (XI (XO (XO
    XH)))))))))) :: []) :: (((Npos (XI (XO (XI (XI (XO (XO (XI (XO (XO
    XH)))))))))) :: []) :: (((Npos (XO (XI (XI (XI (XO (XO (XI (XO (XO
    XH)))))))))) :: []) :: (((Npos (XI (XI (XI (XI (XO (XO (XI (XO (XO
    XH)))))))))) :: []) :: (((Npos (XO (XO (XO (XO (XI (XO (XI (XO (XO
    XH)))))))))) :: []) :: (((Npos (XI (XO (XO (XO (XI (XO (XI (XO (XO
    XH)))))))))) :: []) :: (((Npos (XO (XI (XO (XO (XI (XO (XI (XO (XO
    XH)))))))))) :: []) :: (((Npos (XI (XI (XO (XO (XI (XO (XI (XO (XO
    XH)))))))))) :: []) :: (((Npos (XO (XO (XI (XO (XI (XO (XI (XO (XO
    XH)))))))))) :: []) :: (((Npos (XI (XO (XI (XO (XI (XO (XI (XO (XO
    XH)))))))))) :: []) :: (((Npos (XO (XI (XI (XO (XI (XO (XI (XO (XO
    XH)))))))))) :: []) :: (((Npos (XI (XI (XI (XO (XI (XO (XI (XO (XO
    XH)))))))))) :: []) :: (((Npos (XO (XO (XO (XI (XI (XO (XI (XO (XO
    XH)))))))))) :: []) :: (((Npos (XI (XO (XO (XI (XI (XO (XI (XO (XO
    XH)))))))))) :: []) :: (((Npos (XO (XI (XO (XI (XI (XO (XI (XO (XO
    XH)))))))))) :: []) :: (((Npos (XI (XI (XO (XI (XI (XO (XI (XO (XO
    XH)))))))))) :: []) :: (((Npos (XO (XO (XI (XI (XI (XO (XI (XO (XO
    XH)))))))))) :: []) :: (((Npos (XI (XO (XI (XI (XI (XO (XI (XO (XO
    XH)))))))))) :: []) :: (((Npos (XO (XI (XI (XI (XI (XO (XI (XO (XO
    XH)))))))))) :: []) :: (((Npos (XI (XI (XI (XI (XI (XO (XI (XO (XO
    XH)))))))))) :: []) :: (((Npos (XO (XO (XO (XO (XO (XI (XI (XO (XO
    XH)))))))))) :: []) :: (((Npos (XI (XO (XO (XO (XO (XI (XI (XO (XO
    XH)))))))))) :: []) :: (((Npos (XO (XI (XO (XO (XO (XI (XI (XO (XO
    XH)))))))))) :: []) :: (((Npos (XI (XI (XO (XO (XO (XI (XI (XO (XO
    XH)))))))))) :: []) :: (((Npos (XO (XO (XI (XO (XO (XI (XI (XO (XO
    XH)))))))))) :: []) :: (((Npos (XI (XO (XI (XO (XO (XI (XI (XO (XO
    XH)))))))))) :: []) :: (((Npos (XO (XI (XI (XO (XO (XI (XI (XO (XO
    XH)))))))))) :: []) :: (((Npos (XI (XI (XI (XO (XO (XI (XI (XO (XO
    XH)))))))))) :: []) :: (((Npos (XO (XO (XO (XI (XO (XI (XI (XO (XO
    XH)))))))))) :: []) :: (((Npos (XI (XO (XO (XI (XO (XI (XI (XO (XO
    XH)))))))))) :: []) :: (((Npos (XO (XI (XO (XI (XO (XI (XI (XO (XO
    XH)))))))))) :: []) :: (((Npos (XI (XI (XO (XI (XO (XI (XI (XO (XO
    XH)))))))))) :: []) :: (((Npos (XO (XO (XI (XI (XO (XI (XI (XO (XO
    XH)))))))))) :: []) :: (((Npos (XI (XO (XI (XI (XO (XI (XI (XO (XO
    XH)))))))))) :: []) :: (((Npos (XO (XI (XI (XI (XO (XI (XI (XO (XO
    XH)))))))))) :: []) :: (((Npos (XI (XI (XI (XI (XO (XI (XI (XO (XO
    XH)))))))))) :: []) :: (((Npos (XO (XO (XO (XO (XI (XI (XI (XO (XO
    XH)))))))))) :: []) :: (((Npos (XI (XO (XO (XO (XI (XI (XI (XO (XO
    XH)))))))))) :: []) :: (((Npos (XO (XI (XO (XO (XI (XI (XI (XO (XO
    XH)))))))))) :: []) :: (((Npos (XI (XI (XO (XO (XI (XI (XI (XO (XO
    XH)))))))))) :: []) :: (((Npos (XO (XO (XI (XO (XI (XI (XI (XO (XO
    XH)))))))))) :: []) :: (((Npos (XI (XO (XI (XO (XI (XI (XI (XO (XO
    XH)))))))))) :: []) :: (((Npos (XO (XI (XI (XO (XI (XI (XI (XO (XO
    XH)))))))))) :: []) :: (((Npos (XI (XI (XI (XO (XI (XI (XI (XO (XO
    XH)))))))))) :: []) :: (((Npos (XO (XO (XO (XI (XI (XI (XI (XO (XO
    XH)))))))))) :: []) :: (((Npos (XI (XO (XO (XI (XI (XI (XI (XO (XO
    XH)))))))))) :: []) :: (((Npos (XO (XI (XO (XI (XI (XI (XI (XO (XO
    XH)))))))))) :: []) :: (((Npos (XI (XI (XO (XI (XI (XI (XI (XO (XO
    XH)))))))))) :: []) :: (((Npos (XO (XO (XI (XI (XI (XI (XI (XO (XO
    XH)))))))))) :: []) :: (((Npos (XI (XO (XI (XI (XI (XI (XI (XO (XO
    XH)))))))))) :: []) :: (((Npos (XO (XI (XI (XI (XI (XI (XI (XO (XO
    XH)))))))))) :: []) :: (((Npos (XI (XI (XI (XI (XI (XI (XI (XO (XO
    XH)))))))))) :: []) :: (((Npos (XO (XO (XO (XO (XO (XO (XO (XI (XO
    XH)))))))))) :: []) :: (((Npos (XI (XO (XO (XO (XO (XO (XO (XI (XO
    XH)))))))))) :: []) :: (((Npos (XO (XI (XO (XO (XO (XO (XO (XI (XO
    XH)))))))))) :: []) :: (((Npos (XI (XI (XO (XO (XO (XO (XO (XI (XO
    XH)))))))))) :: []) :: (((Npos (XO (XO (XI (XO (XO (XO (XO (XI (XO
    XH)))))))))) :: []) :: (((Npos (XI (XO (XI (XO (XO (XO (XO (XI (XO
    XH)))))))))) :: []) :: (((Npos (XO (XI (XI (XO (XO (XO (XO (XI (XO
    XH)))))))))) :: []) :: (((Npos (XI (XI (XI (XO (XO (XO (XO (XI (XO
    XH)))))))))) :: []) :: (((Npos (XO (XO (XO (XI (XO (XO (XO (XI (XO
    XH)))))))))) :: []) :: (((Npos (XI (XO (XO (XI (XO (XO (XO (XI (XO
    XH)))))))))) :: []) :: (((Npos (XO (XI (XO (XI (XO (XO (XO (XI (XO
    XH)))))))))) :: []) :: (((Npos (XI (XI (XO (XI (XO (XO (XO (XI (XO
    XH)))))))))) :: []) :: (((Npos (XO (XO (XI (XI (XO (XO (XO (XI (XO
    XH)))))))))) :: []) :: (((Npos (XI (XO (XI (XI (XO (XO (XO (XI (XO
    XH)))))))))) :: []) :: (((Npos (XO (XI (XI (XI (XO (XO (XO (XI (XO
    XH)))))))))) :: []) :: (((Npos (XI (XI (XI (XI (XO (XO (XO (XI (XO
    XH)))))))))) :: []) :: (((Npos (XO (XO (XO (XO (XI (XO (XO (XI (XO
    XH)))))))))) :: []) :: (((Npos (XI (XO (XO (XO (XI (XO (XO (XI (XO
    XH)))))))))) :: []) :: (((Npos (XO (XI (XO (XO (XI (XO (XO (XI (XO
    XH)))))))))) :: []) :: (((Npos (XI (XI (XO (XO (XI (XO (XO (XI (XO
    XH)))))))))) :: []) :: (((Npos (XO (XO (XI (XO (XI (XO (XO (XI (XO
    XH)))))))))) :: []) :: (((Npos (XI (XO (XI (XO (XI (XO (XO (XI (XO
    XH)))))))))) :: []) :: (((Npos (XO (XI (XI (XO (XI (XO (XO (XI (XO
    XH)))))))))) :: []) :: (((Npos (XI (XI (XI (XO (XI (XO (XO (XI (XO
    XH)))))))))) :: []) :: (((Npos (XO (XO (XO (XI (XI (XO (XO (XI (XO
    XH)))))))))) :: []) :: (((Npos (XI (XO (XO (XI (XI (XO (XO (XI (XO
    XH)))))))))) :: []) :: (((Npos (XO (XI (XO (XI (XI (XO (XO (XI (XO
    XH)))))))))) :: []) :: (((Npos (XI (XI (XO (XI (XI (XO (XO (XI (XO
    XH)))))))))) :: []) :: (((Npos (XO (XO (XI (XI (XI (XO (XO (XI (XO
    XH)))))))))) :: []) :: (((Npos (XI (XO (XI (XI (XI (XO (XO (XI (XO
    XH)))))))))) :: []) :: (((Npos (XO (XI (XI (XI (XI (XO (XO (XI (XO
    XH)))))))))) :: []) :: (((Npos (XI (XI (XI (XI (XI (XO (XO (XI (XO
    XH)))))))))) :: []) :: (((Npos (XO (XO (XO (XO (XO (XI (XO (XI (XO
    XH)))))))))) :: []) :: (((Npos (XI (XO (XO (XO (XO (XI (XO (XI (XO
    XH)))))))))) :: []) :: (((Npos (XO (XI (XO (XO (XO (XI (XO (XI (XO
    XH)))))))))) :: []) :: (((Npos (XI (XI (XO (XO (XO (XI (XO (XI (XO
    XH)))))))))) :: []) :: (((Npos (XO (XO (XI (XO (XO (XI (XO (XI (XO
    XH)))))))))) :: []) :: (((Npos (XI (XO (XI (XO (XO (XI (XO (XI (XO
    XH)))))))))) :: []) :: (((Npos (XO (XI (XI (XO (XO (XI (XO (XI (XO
    XH)))))))))) :: []) :: (((Npos (XI (XI (XI (XO (XO (XI (XO (XI (XO
    XH)))))))))) :: []) :: (((Npos (XO (XO (XO (XI (XO (XI (XO (XI (XO
    XH)))))))))) :: []) :: (((Npos (XI (XO (XO (XI (XO (XI (XO (XI (XO
    XH)))))))))) :: []) :: (((Npos (XO (XI (XO (XI (XO (XI (XO (XI (XO
    XH)))))))))) :: []) :: (((Npos (XI (XI (XO (XI (XO (XI (XO (XI (XO
    XH)))))))))) :: []) :: (((Npos (XO (XO (XI (XI (XO (XI (XO (XI (XO
    XH)))))))))) :: []) :: (((Npos (XI (XO (XI (XI (XO (XI (XO (XI (XO
    XH)))))))))) :: []) :: (((Npos (XO (XI (XI (XI (XO (XI (XO (XI (XO
    XH)))))))))) :: []) :: (((Npos (XI (XI (XI (XI (XO (XI (XO (XI (XO
    XH)))))))))) :: []) :: (((Npos (XO (XO (XO (XO (XI (XI (XO (XI (XO
    XH)))))))))) :: []) :: (((Npos (XI (XO (XO (XO (XI (XI (XO (XI (XO
    XH)))))))))) :: []) :: (((Npos (XO (XI (XO (XO (XI (XI (XO (XI (XO
    XH)))))))))) :: []) :: (((Npos (XI (XI (XO (XO (XI (XI (XO (XI (XO
    XH)))))))))) :: []) :: (((Npos (XO (XO (XI (XO (XI (XI (XO (XI (XO
    XH)))))))))) :: []) :: (((Npos (XI (XO (XI (XO (XI (XI (XO (XI (XO
    XH)))))))))) :: []) :: (((Npos (XO (XI (XI (XO (XI (XI (XO (XI (XO
    XH)))))))))) :: []) :: (((Npos (XI (XI (XI (XO (XI (XI (XO (XI (XO
    XH)))))))))) :: []) :: (((Npos (XO (XO (XO (XI (XI (XI (XO (XI (XO
    XH)))))))))) :: []) :: (((Npos (XI (XO (XO (XI (XI (XI (XO (XI (XO
    XH)))))))))) :: []) :: (((Npos (XO (XI (XO (XI (XI (XI (XO (XI (XO
    XH)))))))))) :: []) :: (((Npos (XI (XI (XO (XI (XI (XI (XO (XI (XO
    XH)))))))))) :: []) :: (((Npos (XO (XO (XI (XI (XI (XI (XO (XI (XO
    XH)))))))))) :: []) :: (((Npos (XI (XO (XI (XI (XI (XI (XO (XI (XO
    XH)))))))))) :: []) :: (((Npos (XO (XI (XI (XI (XI (XI (XO (XI (XO
    XH)))))))))) :: []) :: (((Npos (XI (XI (XI (XI (XI (XI (XO (XI (XO
    XH)))))))))) :: []) :: (((Npos (XO (XO (XO (XO (XO (XO (XI (XI (XO
    XH)))))))))) :: []) :: (((Npos (XI (XO (XO (XO (XO (XO (XI (XI (XO
    XH)))))))))) :: []) :: (((Npos (XO (XI (XO (XO (XO (XO (XI (XI (XO
    XH)))))))))) :: []) :: (((Npos (XI (XI (XO (XO (XO (XO (XI (XI (XO
    XH)))))))))) :: []) :: (((Npos (XO (XO (XI (XO (XO (XO (XI (XI (XO
    XH)))))))))) :: []) :: (((Npos (XI (XO (XI (XO (XO (XO (XI (XI (XO
    XH)))))))))) :: []) :: (((Npos (XO (XI (XI (XO (XO (XO (XI (XI (XO
    XH)))))))))) :: []) :: (((Npos (XI (XI (XI (XO (XO (XO (XI (XI (XO
    XH)))))))))) :: []) :: (((Npos (XO (XO (XO (XI (XO (XO (XI (XI (XO
    XH)))))))))) :: []) :: (((Npos (XI (XO (XO (XI (XO (XO (XI (XI (XO
    XH)))))))))) :: []) :: (((Npos (XO (XI (XO (XI (XO (XO (XI (XI (XO
    XH)))))))))) :: []) :: (((Npos (XI (XI (XO (XI (XO (XO (XI (XI (XO
    XH)))))))))) :: []) :: (((Npos (XO (XO (XI (XI (XO (XO (XI (XI (XO
    XH)))))))))) :: []) :: (((Npos (XI (XO (XI (XI (XO (XO (XI (XI (XO
    XH)))))))))) :: []) :: (((Npos (XO (XI (XI (XI (XO (XO (XI (XI (XO
    XH)))))))))) :: []) :: (((Npos (XI (XI (XI (XI (XO (XO (XI (XI (XO
    XH)))))))))) :: []) :: (((Npos (XO (XO (XO (XO (XI (XO (XI (XI (XO
    XH)))))))))) :: []) :: (((Npos (XI (XO (XO (XO (XI (XO (XI (XI (XO
    XH)))))))))) :: []) :: (((Npos (XO (XI (XO (XO (XI (XO (XI (XI (XO
    XH)))))))))) :: []) :: (((Npos (XI (XI (XO (XO (XI (XO (XI (XI (XO
    XH)))))))))) :: []) :: (((Npos (XO (XO (XI (XO (XI (XO (XI (XI (XO
    XH)))))))))) :: []) :: (((Npos (XI (XO (XI (XO (XI (XO (XI (XI (XO
    XH)))))))))) :: []) :: (((Npos (XO (XI (XI (XO (XI (XO (XI (XI (XO
    XH)))))))))) :: []) :: (((Npos (XI (XI (XI (XO (XI (XO (XI (XI (XO
    XH)))))))))) :: []) :: (((Npos (XO (XO (XO (XI (XI (XO (XI (XI (XO
    XH)))))))))) :: []) :: (((Npos (XI (XO (XO (XI (XI (XO (XI (XI (XO
    XH)))))))))) :: []) :: (((Npos (XO (XI (XO (XI (XI (XO (XI (XI (XO
    XH)))))))))) :: []) :: (((Npos (XI (XI (XO (XI (XI (XO (XI (XI (XO
    XH)))))))))) :: []) :: (((Npos (XO (XO (XI (XI (XI (XO (XI (XI (XO
    XH)))))))))) :: []) :: (((Npos (XI (XO (XI (XI (XI (XO (XI (XI (XO
    XH)))))))))) :: []) :: (((Npos (XO (XI (XI (XI (XI (XO (XI (XI (XO
    XH)))))))))) :: []) :: (((Npos (XI (XI (XI (XI (XI (XO (XI (XI (XO
    XH)))))))))) :: []) :: (((Npos (XO (XO (XO (XO (XO (XI (XI (XI (XO
    XH)))))))))) :: []) :: (((Npos (XI (XO (XO (XO (XO (XI (XI (XI (XO
    XH)))))))))) :: []) :: (((Npos (XO (XI (XO (XO (XO (XI (XI (XI (XO
    XH)))))))))) :: []) :: (((Npos (XI (XI (XO (XO (XO (XI (XI (XI (XO
    XH)))))))))) :: []) :: (((Npos (XO (XO (XI (XO (XO (XI (XI (XI (XO
    XH)))))))))) :: []) :: (((Npos (XI (XO (XI (XO (XO (XI (XI (XI (XO
    XH)))))))))) :: []) :: (((Npos (XO (XI (XI (XO (XO (XI (XI (XI (XO
    XH)))))))))) :: []) :: (((Npos (XI (XI (XI (XO (XO (XI (XI (XI (XO
    XH)))))))))) :: []) :: (((Npos (XO (XO (XO (XI (XO (XI (XI (XI (XO
    XH)))))))))) :: []) :: (((Npos (XI (XO (XO (XI (XO (XI (XI (XI (XO
    XH)))))))))) :: []) :: (((Npos (XO (XI (XO (XI (XO (XI (XI (XI (XO
    XH)))))))))) :: []) :: (((Npos (XI (XI (XO (XI (XO (XI (XI (XI (XO
    XH)))))))))) :: []) :: (((Npos (XO (XO (XI (XI (XO (XI (XI (XI (XO
    XH)))))))))) :: []) :: (((Npos (XI (XO (XI (XI (XO (XI (XI (XI (XO
    XH)))))))))) :: []) :: (((Npos (XO (XI (XI (XI (XO (XI (XI (XI (XO
    XH)))))))))) :: []) :: (((Npos (XI (XI (XI (XI (XO (XI (XI (XI (XO
    XH)))))))))) :: []) :: (((Npos (XO (XO (XO (XO (XI (XI (XI (XI (XO
    XH)))))))))) :: []) :: (((Npos (XI (XO (XO (XO (XI (XI (XI (XI (XO
    XH)))))))))) :: []) :: (((Npos (XO (XI (XO (XO (XI (XI (XI (XI (XO
    XH)))))))))) :: []) :: (((Npos (XI (XI (XO (XO (XI (XI (XI (XI (XO
    XH)))))))))) :: []) :: (((Npos (XO (XO (XI (XO (XI (XI (XI (XI (XO
    XH)))))))))) :: []) :: (((Npos (XI (XO (XI (XO (XI (XI (XI (XI (XO
    XH)))))))))) :: []) :: (((Npos (XO (XI (XI (XO (XI (XI (XI (XI (XO
    XH)))))))))) :: []) :: (((Npos (XI (XI (XI (XO (XI (XI (XI (XI (XO
    XH)))))))))) :: []) :: (((Npos (XO (XO (XO (XI (XI (XI (XI (XI (XO
    XH)))))))))) :: []) :: (((Npos (XI (XO (XO (XI (XI (XI (XI (XI (XO
    XH)))))))))) :: []) :: (((Npos (XO (XI (XO (XI (XI (XI (XI (XI (XO
    XH)))))))))) :: []) :: (((Npos (XI (XI (XO (XI (XI (XI (XI (XI (XO
    XH)))))))))) :: []) :: (((Npos (XO (XO (XI (XI (XI (XI (XI (XI (XO
    XH)))))))))) :: []) :: (((Npos (XI (XO (XI (XI (XI (XI (XI (XI (XO
    XH)))))))))) :: []) :: (((Npos (XO (XI (XI (XI (XI (XI (XI (XI (XO
    XH)))))))))) :: []) :: (((Npos (XI (XI (XI (XI (XI (XI (XI (XI (XO
    XH)))))))))) :: []) :: [])))))))))))))))))))))))))))))))))))))))))))))))))))))))))))))))))))))))))))))))))))))))))))))))))))))))))))))))))))))))))))))))))))))))))))))))))))))))))))))))))))))))))))))))))))))))))))))))))))))))))))))))))))))))))))))))))))))))))))))))))))))))))))))))))))))))))))))))))))))))))))))))))))))))))))))))))))))))))))))))))))))))))))))))))))))))))))))))))))))))))))))))))))))))))))))))))))))))))))))))))))))))))))))))))))))))))))))))))))))))))))))))))))))))))))))))))))))))))))))))))))))))))))))))))))))))))))))))))))))))))))))))))))))))))))))))))))))))))))))))))))))))))))))))))))))))))))))))))))))))))))))))))))))))))))))))))))))))))))))))))))))))))))))))))))))))))))))))))))))))))))))))))))))))))))))))))))))))))))))))))))))))))))))))))))))))))))))))))))))))))))))))

(** val escape_table_dq : n list list **)

let escape_table_dq =
  ((Npos (XO (XO (XI (XI (XI (XO XH))))))) :: ((Npos (XO (XO (XO (XI (XI (XI
    XH))))))) :: ((Npos (XO (XO (XO (XO (XI XH)))))) :: ((Npos (XO (XO (XO
    (XO (XI XH)))))) :: [])))) :: (((Npos (XO (XO (XI (XI (XI (XO
    XH))))))) :: ((Npos (XO (XO (XO (XI (XI (XI XH))))))) :: ((Npos (XO (XO
    (XO (XO (XI XH)))))) :: ((Npos (XI (XO (XO (XO (XI
    XH)))))) :: [])))) :: (((Npos (XO (XO (XI (XI (XI (XO XH))))))) :: ((Npos
    (XO (XO (XO (XI (XI (XI XH))))))) :: ((Npos (XO (XO (XO (XO (XI
    XH)))))) :: ((Npos (XO (XI (XO (XO (XI XH)))))) :: [])))) :: (((Npos (XO
    (XO (XI (XI (XI (XO XH))))))) :: ((Npos (XO (XO (XO (XI (XI (XI
    XH))))))) :: ((Npos (XO (XO (XO (XO (XI XH)))))) :: ((Npos (XI (XI (XO
    (XO (XI XH)))))) :: [])))) :: (((Npos (XO (XO (XI (XI (XI (XO
    XH))))))) :: ((Npos (XO (XO (XO (XI (XI (XI XH))))))) :: ((Npos (XO (XO
    (XO (XO (XI XH)))))) :: ((Npos (XO (XO (XI (XO (XI
    XH)))))) :: [])))) :: (((Npos (XO (XO (XI (XI (XI (XO XH))))))) :: ((Npos
    (XO (XO (XO (XI (XI (XI XH))))))) :: ((Npos (XO (XO (XO (XO (XI
    XH)))))) :: ((Npos (XI (XO (XI (XO (XI XH)))))) :: [])))) :: (((Npos (XO
    (XO (XI (XI (XI (XO XH))))))) :: ((Npos (XO (XO (XO (XI (XI (XI
    XH))))))) :: ((Npos (XO (XO (XO (XO (XI XH)))))) :: ((Npos (XO (XI (XI
    (XO (XI XH)))))) :: [])))) :: (((Npos (XO (XO (XI (XI (XI (XO
    XH))))))) :: ((Npos (XO (XO (XO (XI (XI (XI XH))))))) :: ((Npos (XO (XO
    (XO (XO (XI XH)))))) :: ((Npos (XI (XI (XI (XO (XI
    XH)))))) :: [])))) :: (((Npos (XO (XO (XI (XI (XI (XO XH))))))) :: ((Npos
    (XO (XO (XO (XI (XI (XI XH))))))) :: ((Npos (XO (XO (XO (XO (XI
    XH)))))) :: ((Npos (XO (XO (XO (XI (XI XH)))))) :: [])))) :: (((Npos (XO
    (XO (XI (XI (XI (XO XH))))))) :: ((Npos (XO (XO (XI (XO (XI (XI
    XH))))))) :: [])) :: (((Npos (XO (XO (XI (XI (XI (XO XH))))))) :: ((Npos
    (XO (XI (XI (XI (XO (XI XH))))))) :: [])) :: (((Npos (XO (XO (XI (XI (XI
    (XO XH))))))) :: ((Npos (XO (XO (XO (XI (XI (XI XH))))))) :: ((Npos (XO
    (XO (XO (XO (XI XH)))))) :: ((Npos (XO (XI (XO (XO (XO (XI
    XH))))))) :: [])))) :: (((Npos (XO (XO (XI (XI (XI (XO
    XH))))))) :: ((Npos (XO (XO (XO (XI (XI (XI XH))))))) :: ((Npos (XO (XO
    (XO (XO (XI XH)))))) :: ((Npos (XI (XI (XO (XO (XO (XI
    XH))))))) :: [])))) :: (((Npos (XO (XO (XI (XI (XI (XO
    XH))))))) :: ((Npos (XO (XI (XO (XO (XI (XI XH))))))) :: [])) :: (((Npos
    (XO (XO (XI (XI (XI (XO XH))))))) :: ((Npos (XO (XO (XO (XI (XI (XI
    XH))))))) :: ((Npos (XO (XO (XO (XO (XI XH)))))) :: ((Npos (XI (XO (XI
    (XO (XO (XI XH))))))) :: [])))) :: (((Npos (XO (XO (XI (XI (XI (XO
    XH))))))) :: ((Npos (XO (XO (XO (XI (XI (XI XH))))))) :: ((Npos (XO (XO
    (XO (XO (XI XH)))))) :: ((Npos (XO (XI (XI (XO (XO (XI
    XH))))))) :: [])))) :: (((Npos (XO (XO (XI (XI (XI (XO
    XH))))))) :: ((Npos (XO (XO (XO (XI (XI (XI XH))))))) :: ((Npos (XI (XO
    (XO (XO (XI XH)))))) :: ((Npos (XO (XO (XO (XO (XI
    XH)))))) :: [])))) :: (((Npos (XO (XO (XI (XI (XI (XO XH))))))) :: ((Npos
    (XO (XO (XO (XI (XI (XI XH))))))) :: ((Npos (XI (XO (XO (XO (XI
    XH)))))) :: ((Npos (XI (XO (XO (XO (XI XH)))))) :: [])))) :: (((Npos (XO
    (XO (XI (XI (XI (XO XH))))))) :: ((Npos (XO (XO (XO (XI (XI (XI
    XH))))))) :: ((Npos (XI (XO (XO (XO (XI XH)))))) :: ((Npos (XO (XI (XO
    (XO (XI XH)))))) :: [])))) :: (((Npos (XO (XO (XI (XI (XI (XO
    XH))))))) :: ((Npos (XO (XO (XO (XI (XI (XI XH))))))) :: ((Npos (XI (XO
    (XO (XO (XI XH)))))) :: ((Npos (XI (XI (XO (XO (XI
    XH)))))) :: [])))) :: (((Npos (XO (XO (XI (XI (XI (XO XH))))))) :: ((Npos
    (XO (XO (XO (XI (XI (XI XH))))))) :: ((Npos (XI (XO (XO (XO (XI
    XH)))))) :: ((Npos (XO (XO (XI (XO (XI XH)))))) :: [])))) :: (((Npos (XO
    (XO (XI (XI (XI (XO XH))))))) :: ((Npos (XO (XO (XO (XI (XI (XI
    XH))))))) :: ((Npos (XI (XO (XO (XO (XI XH)))))) :: ((Npos (XI (XO (XI
    (XO (XI XH)))))) :: [])))) :: (((Npos (XO (XO (XI (XI (XI (XO
    XH))))))) :: ((Npos (XO (XO (XO (XI (XI (XI XH))))))) :: ((Npos (XI (XO
    (XO (XO (XI XH)))))) :: ((Npos (XO (XI (XI (XO (XI
    XH)))))) :: [])))) :: (((Npos (XO (XO (XI (XI (XI (XO XH))))))) :: ((Npos
    (XO (XO (XO (XI (XI (XI XH))))))) :: ((Npos (XI (XO (XO (XO (XI
    XH)))))) :: ((Npos (XI (XI (XI (XO (XI XH)))))) :: [])))) :: (((Npos (XO
    (XO (XI (XI (XI (XO XH))))))) :: ((Npos (XO (XO (XO (XI (XI (XI
    XH))))))) :: ((Npos (XI (XO (XO (XO (XI XH)))))) :: ((Npos (XO (XO (XO
    (XI (XI XH)))))) :: [])))) :: (((Npos (XO (XO (XI (XI (XI (XO
    XH))))))) :: ((Npos (XO (XO (XO (XI (XI (XI XH))))))) :: ((Npos (XI (XO
    (XO (XO (XI XH)))))) :: ((Npos (XI (XO (XO (XI (XI
    XH)))))) :: [])))) :: (((Npos (XO (XO (XI (XI (XI (XO XH))))))) :: ((Npos
    (XO (XO (XO (XI (XI (XI XH))))))) :: ((Npos (XI (XO (XO (XO (XI
    XH)))))) :: ((Npos (XI (XO (XO (XO (XO (XI XH))))))) :: [])))) :: (((Npos
    (XO (XO (XI (XI (XI (XO XH))))))) :: ((Npos (XO (XO (XO (XI (XI (XI
    XH))))))) :: ((Npos (XI (XO (XO (XO (XI XH)))))) :: ((Npos (XO (XI (XO
    (XO (XO (XI XH))))))) :: [])))) :: (((Npos (XO (XO (XI (XI (XI (XO
    XH))))))) :: ((Npos (XO (XO (XO (XI (XI (XI XH))))))) :: ((Npos (XI (XO
    (XO (XO (XI XH)))))) :: ((Npos (XI (XI (XO (XO (XO (XI
    XH))))))) :: [])))) :: (((Npos (XO (XO (XI (XI (XI (XO
    XH))))))) :: ((Npos (XO (XO (XO (XI (XI (XI XH))))))) :: ((Npos (XI (XO
    (XO (XO (XI XH)))))) :: ((Npos (XO (XO (XI (XO (XO (XI
    XH))))))) :: [])))) :: (((Npos (XO (XO (XI (XI (XI (XO
    XH))))))) :: ((Npos (XO (XO (XO (XI (XI (XI XH))))))) :: ((Npos (XI (XO
    (XO (XO (XI XH)))))) :: ((Npos (XI (XO (XI (XO (XO (XI
    XH))))))) :: [])))) :: (((Npos (XO (XO (XI (XI (XI (XO
    XH))))))) :: ((Npos (XO (XO (XO (XI (XI (XI XH))))))) :: ((Npos (XI (XO
    (XO (XO (XI XH)))))) :: ((Npos (XO (XI (XI (XO (XO (XI
    XH))))))) :: [])))) :: (((Npos (XO (XO (XO (XO (XO
    XH)))))) :: []) :: (((Npos (XI (XO (XO (XO (XO XH)))))) :: []) :: (((Npos
    (XO (XO (XI (XI (XI (XO XH))))))) :: ((Npos (XO (XI (XO (XO (XO
    XH)))))) :: [])) :: (((Npos (XI (XI (XO (XO (XO
    XH)))))) :: []) :: (((Npos (XO (XO (XI (XO (XO XH)))))) :: []) :: (((Npos
    (XI (XO (XI (XO (XO XH)))))) :: []) :: (((Npos (XO (XI (XI (XO (XO
    XH)))))) :: []) :: (((Npos (XI (XI (XI (XO (XO XH)))))) :: []) :: (((Npos
    (XO (XO (XO (XI (XO XH)))))) :: []) :: (((Npos (XI (XO (XO (XI (XO
    XH)))))) :: []) :: (((Npos (XO (XI (XO (XI (XO XH)))))) :: []) :: (((Npos
    (XI (XI (XO (XI (XO XH)))))) :: []) :: (((Npos (XO (XO (XI (XI (XO
    XH)))))) :: []) :: (((Npos (XI (XO (XI (XI (XO XH)))))) :: []) :: (((Npos
    (XO (XI (XI (XI (XO XH)))))) :: []) :: (((Npos (XI (XI (XI (XI (XO
    XH)))))) :: []) :: (((Npos (XO (XO (XO (XO (XI XH)))))) :: []) :: (((Npos
    (XI (XO (XO (XO (XI XH)))))) :: []) :: (((Npos (XO (XI (XO (XO (XI
    XH)))))) :: []) :: (((Npos (XI (XI (XO (XO (XI XH)))))) :: []) :: (((Npos
    (XO (XO (XI (XO (XI XH)))))) :: []) :: (((Npos (XI (XO (XI (XO (XI
    XH)))))) :: []) :: (((Npos (XO (XI (XI (XO (XI XH)))))) :: []) :: (((Npos
    (XI (XI (XI (XO (XI XH)))))) :: []) :: (((Npos (XO (XO (XO (XI (XI
    XH)))))) :: []) :: (((Npos (XI (XO (XO (XI (XI XH)))))) :: []) :: (((Npos
    (XO (XI (XO (XI (XI XH)))))) :: []) :: (((Npos (XI (XI (XO (XI (XI
    XH)))))) :: []) :: (((Npos (XO (XO (XI (XI (XI XH)))))) :: []) :: (((Npos
    (XI (XO (XI (XI (XI XH)))))) :: []) :: (((Npos (XO (XI (XI (XI (XI
    XH)))))) :: []) :: (((Npos (XI (XI (XI (XI (XI XH)))))) :: []) :: (((Npos
    (XO (XO (XO (XO (XO (XO XH))))))) :: []) :: (((Npos (XI (XO (XO (XO (XO
    (XO XH))))))) :: []) :: (((Npos (XO (XI (XO (XO (XO (XO
    XH))))))) :: []) :: (((Npos (XI (XI (XO (XO (XO (XO
    XH))))))) :: []) :: (((Npos (XO (XO (XI (XO (XO (XO
    XH))))))) :: []) :: (((Npos (XI (XO (XI (XO (XO (XO
    XH))))))) :: []) :: (((Npos (XO (XI (XI (XO (XO (XO
    XH))))))) :: []) :: (((Npos (XI (XI (XI (XO (XO (XO
    XH))))))) :: []) :: (((Npos (XO (XO (XO (XI (XO (XO
    XH))))))) :: []) :: (((Npos (XI (XO (XO (XI (XO (XO
    XH))))))) :: []) :: (((Npos (XO (XI (XO (XI (XO (XO
    XH))))))) :: []) :: (((Npos (XI (XI (XO (XI (XO (XO
    XH))))))) :: []) :: (((Npos (XO (XO (XI (XI (XO (XO
    XH))))))) :: []) :: (((Npos (XI (XO (XI (XI (XO (XO
    XH))))))) :: []) :: (((Npos (XO (XI (XI (XI (XO (XO
    XH))))))) :: []) :: (((Npos (XI (XI (XI (XI (XO (XO
    XH))))))) :: []) :: (((Npos (XO (XO (XO (XO (XI (XO
    XH))))))) :: []) :: (((Npos (XI (XO (XO (XO (XI (XO
    XH))))))) :: []) :: (((Npos (XO (XI (XO (XO (XI (XO
    XH))))))) :: []) :: (((Npos (XI (XI (XO (XO (XI (XO
    XH))))))) :: []) :: (((Npos (XO (XO (XI (XO (XI (XO
    XH))))))) :: []) :: (((Npos (XI (XO (XI (XO (XI (XO
    XH))))))) :: []) :: (((Npos (XO (XI (XI (XO (XI (XO
    XH))))))) :: []) :: (((Npos (XI (XI (XI (XO (XI (XO
    XH))))))) :: []) :: (((Npos (XO (XO (XO (XI (XI (XO
    XH))))))) :: []) :: (((Npos (XI (XO (XO (XI (XI (XO
    XH))))))) :: []) :: (((Npos (XO (XI (XO (XI (XI (XO
    XH))))))) :: []) :: (((Npos (XI (XI (XO (XI (XI (XO
    XH))))))) :: []) :: (((Npos (XO (XO (XI (XI (XI (XO XH))))))) :: ((Npos
    (XO (XO (XI (XI (XI (XO XH))))))) :: [])) :: (((Npos (XI (XO (XI (XI (XI
    (XO XH))))))) :: []) :: (((Npos (XO (XI (XI (XI (XI (XO
    XH))))))) :: []) :: (((Npos (XI (XI (XI (XI (XI (XO
    XH))))))) :: []) :: (((Npos (XO (XO (XO (XO (XO (XI
    XH))))))) :: []) :: (((Npos (XI (XO (XO (XO (XO (XI
    XH))))))) :: []) :: (((Npos (XO (XI (XO (XO (XO (XI
    XH))))))) :: []) :: (((Npos (XI (XI (XO (XO (XO (XI
    XH))))))) :: []) :: (((Npos (XO (XO (XI (XO (XO (XI
    XH))))))) :: []) :: (((Npos (XI (XO (XI (XO (XO (XI
    XH))))))) :: []) :: (((Npos (XO (XI (XI (XO (XO (XI
    XH))))))) :: []) :: (((Npos (XI (XI (XI (XO (XO (XI
    XH))))))) :: []) :: (((Npos (XO (XO (XO (XI (XO (XI
    XH))))))) :: []) :: (((Npos (XI (XO (XO (XI (XO (XI
    XH))))))) :: []) :: (((Npos (XO (XI (XO (XI (XO (XI
    XH))))))) :: []) :: (((Npos (XI (XI (XO (XI (XO (XI
    XH))))))) :: []) :: (((Npos (XO (XO (XI (XI (XO (XI
    XH))))))) :: []) :: (((Npos (XI (XO (XI (XI (XO (XI
    XH))))))) :: []) :: (((Npos (XO (XI (XI (XI (XO (XI
    XH))))))) :: []) :: (((Npos (XI (XI (XI (XI (XO (XI
    XH))))))) :: []) :: (((Npos (XO (XO (XO (XO (XI (XI
    XH))))))) :: []) :: (((Npos (XI (XO (XO (XO (XI (XI
    XH))))))) :: []) :: (((Npos (XO (XI (XO (XO (XI (XI
    XH))))))) :: []) :: (((Npos (XI (XI (XO (XO (XI (XI
    XH))))))) :: []) :: (((Npos (XO (XO (XI (XO (XI (XI
    XH))))))) :: []) :: (((Npos (XI (XO (XI (XO (XI (XI
    XH))))))) :: []) :: (((Npos (XO (XI (XI (XO (XI (XI
    XH))))))) :: []) :: (((Npos (XI (XI (XI (XO (XI (XI
    XH))))))) :: []) :: (((Npos (XO (XO (XO (XI (XI (XI
    XH))))))) :: []) :: (((Npos (XI (XO (XO (XI (XI (XI
    XH))))))) :: []) :: (((Npos (XO (XI (XO (XI (XI (XI
    XH))))))) :: []) :: (((Npos (XI (XI (XO (XI (XI (XI
    XH))))))) :: []) :: (((Npos (XO (XO (XI (XI (XI (XI
    XH))))))) :: []) :: (((Npos (XI (XO (XI (XI (XI (XI
    XH))))))) :: []) :: (((Npos (XO (XI (XI (XI (XI (XI
    XH))))))) :: []) :: (((Npos (XO (XO (XI (XI (XI (XO XH))))))) :: ((Npos
    (XO (XO (XO (XI (XI (XI XH))))))) :: ((Npos (XI (XI (XI (XO (XI
    XH)))))) :: ((Npos (XO (XI (XI (XO (XO (XI XH))))))) :: [])))) :: (((Npos
    (XO (XO (XI (XI (XI (XO XH))))))) :: ((Npos (XO (XO (XO (XI (XI (XI
    XH))))))) :: ((Npos (XO (XO (XO (XI (XI XH)))))) :: ((Npos (XO (XO (XO
    (XO (XI XH)))))) :: [])))) :: (((Npos (XO (XO (XI (XI (XI (XO
    XH))))))) :: ((Npos (XO (XO (XO (XI (XI (XI XH))))))) :: ((Npos (XO (XO
    (XO (XI (XI XH)))))) :: ((Npos (XI (XO (XO (XO (XI
    XH)))))) :: [])))) :: (((Npos (XO (XO (XI (XI (XI (XO XH))))))) :: ((Npos
    (XO (XO (XO (XI (XI (XI XH))))))) :: ((Npos (XO (XO (XO (XI (XI
    XH)))))) :: ((Npos (XO (XI (XO (XO (XI XH)))))) :: [])))) :: (((Npos (XO
    (XO (XI (XI (XI (XO XH))))))) :: ((Npos (XO (XO (XO (XI (XI (XI
    XH))))))) :: ((Npos (XO (XO (XO (XI (XI XH)))))) :: ((Npos (XI (XI (XO
    (XO (XI XH)))))) :: [])))) :: (((Npos (XO (XO (XI (XI (XI (XO
    XH))))))) :: ((Npos (XO (XO (XO (XI (XI (XI XH))))))) :: ((Npos (XO (XO
    (XO (XI (XI XH)))))) :: ((Npos (XO (XO (XI (XO (XI
    XH)))))) :: [])))) :: (((Npos (XO (XO (XI (XI (XI (XO XH))))))) :: ((Npos
    (XO (XO (XO (XI (XI (XI XH))))))) :: ((Npos (XO (XO (XO (XI (XI
    XH)))))) :: ((Npos (XI (XO (XI (XO (XI XH)))))) :: [])))) :: (((Npos (XO
    (XO (XI (XI (XI (XO XH))))))) :: ((Npos (XO (XO (XO (XI (XI (XI
    XH))))))) :: ((Npos (XO (XO (XO (XI (XI XH)))))) :: ((Npos (XO (XI (XI
    (XO (XI XH)))))) :: [])))) :: (((Npos (XO (XO (XI (XI (XI (XO
    XH))))))) :: ((Npos (XO (XO (XO (XI (XI (XI XH))))))) :: ((Npos (XO (XO
    (XO (XI (XI XH)))))) :: ((Npos (XI (XI (XI (XO (XI
    XH)))))) :: [])))) :: (((Npos (XO (XO (XI (XI (XI (XO XH))))))) :: ((Npos
    (XO (XO (XO (XI (XI (XI XH))))))) :: ((Npos (XO (XO (XO (XI (XI
    XH)))))) :: ((Npos (XO (XO (XO (XI (XI XH)))))) :: [])))) :: (((Npos (XO
    (XO (XI (XI (XI (XO XH))))))) :: ((Npos (XO (XO (XO (XI (XI (XI
    XH))))))) :: ((Npos (XO (XO (XO (XI (XI XH)))))) :: ((Npos (XI (XO (XO
    (XI (XI XH)))))) :: [])))) :: (((Npos (XO (XO (XI (XI (XI (XO
    XH))))))) :: ((Npos (XO (XO (XO (XI (XI (XI XH))))))) :: ((Npos (XO (XO
    (XO (XI (XI XH)))))) :: ((Npos (XI (XO (XO (XO (XO (XI
    XH))))))) :: [])))) :: (((Npos (XO (XO (XI (XI (XI (XO
    XH))))))) :: ((Npos (XO (XO (XO (XI (XI (XI XH))))))) :: ((Npos (XO (XO
    (XO (XI (XI XH)))))) :: ((Npos (XO (XI (XO (XO (XO (XI
    XH))))))) :: [])))) :: (((Npos (XO (XO (XI (XI (XI (XO
    XH))))))) :: ((Npos (XO (XO (XO (XI (XI (XI XH))))))) :: ((Npos (XO (XO
    (XO (XI (XI XH)))))) :: ((Npos (XI (XI (XO (XO (XO (XI
    XH))))))) :: [])))) :: (((Npos (XO (XO (XI (XI (XI (XO
    XH))))))) :: ((Npos (XO (XO (XO (XI (XI (XI XH))))))) :: ((Npos (XO (XO
    (XO (XI (XI XH)))))) :: ((Npos (XO (XO (XI (XO (XO (XI
    XH))))))) :: [])))) :: (((Npos (XO (XO (XI (XI (XI (XO
    XH))))))) :: ((Npos (XO (XO (XO (XI (XI (XI XH))))))) :: ((Npos (XO (XO
    (XO (XI (XI XH)))))) :: ((Npos (XI (XO (XI (XO (XO (XI
    XH))))))) :: [])))) :: (((Npos (XO (XO (XI (XI (XI (XO
    XH))))))) :: ((Npos (XO (XO (XO (XI (XI (XI XH))))))) :: ((Npos (XO (XO
    (XO (XI (XI XH)))))) :: ((Npos (XO (XI (XI (XO (XO (XI
    XH))))))) :: [])))) :: (((Npos (XO (XO (XI (XI (XI (XO
    XH))))))) :: ((Npos (XO (XO (XO (XI (XI (XI XH))))))) :: ((Npos (XI (XO
    (XO (XI (XI XH)))))) :: ((Npos (XO (XO (XO (XO (XI
    XH)))))) :: [])))) :: (((Npos (XO (XO (XI (XI (XI (XO XH))))))) :: ((Npos
    (XO (XO (XO (XI (XI (XI XH))))))) :: ((Npos (XI (XO (XO (XI (XI
    XH)))))) :: ((Npos (XI (XO (XO (XO (XI XH)))))) :: [])))) :: (((Npos (XO
    (XO (XI (XI (XI (XO XH))))))) :: ((Npos (XO (XO (XO (XI (XI (XI
    XH))))))) :: ((Npos (XI (XO (XO (XI (XI XH)))))) :: ((Npos (XO (XI (XO
    (XO (XI XH)))))) :: [])))) :: (((Npos (XO (XO (XI (XI (XI (XO
    XH))))))) :: ((Npos (XO (XO (XO (XI (XI (XI XH))))))) :: ((Npos (XI (XO
    (XO (XI (XI XH)))))) :: ((Npos (XI (XI (XO (XO (XI
    XH)))))) :: [])))) :: (((Npos (XO (XO (XI (XI (XI (XO XH))))))) :: ((Npos
    (XO (XO (XO (XI (XI (XI XH))))))) :: ((Npos (XI (XO (XO (XI (XI
    XH)))))) :: ((Npos (XO (XO (XI (XO (XI XH)))))) :: [])))) :: (((Npos (XO
    (XO (XI (XI (XI (XO XH))))))) :: ((Npos (XO (XO (XO (XI (XI (XI
    XH))))))) :: ((Npos (XI (XO (XO (XI (XI XH)))))) :: ((Npos (XI (XO (XI
    (XO (XI XH)))))) :: [])))) :: (((Npos (XO (XO (XI (XI (XI (XO
    XH))))))) :: ((Npos (XO (XO (XO (XI (XI (XI XH))))))) :: ((Npos (XI (XO
    (XO (XI (XI XH)))))) :: ((Npos (XO (XI (XI (XO (XI
    XH)))))) :: [])))) :: (((Npos (XO (XO (XI (XI (XI (XO XH))))))) :: ((Npos
    (XO (XO (XO (XI (XI (XI XH))))))) :: ((Npos (XI (XO (XO (XI (XI
    XH)))))) :: ((Npos (XI (XI (XI (XO (XI XH)))))) :: [])))) :: (((Npos (XO
    (XO (XI (XI (XI (XO XH))))))) :: ((Npos (XO (XO (XO (XI (XI (XI
    XH))))))) :: ((Npos (XI (XO (XO (XI (XI XH)))))) :: ((Npos (XO (XO (XO
    (XI (XI XH)))))) :: [])))) :: (((Npos (XO (XO (XI (XI (XI (XO
    XH))))))) :: ((Npos (XO (XO (XO (XI (XI (XI XH))))))) :: ((Npos (XI (XO
    (XO (XI (XI XH)))))) :: ((Npos (XI (XO (XO (XI (XI
    XH)))))) :: [])))) :: (((Npos (XO (XO (XI (XI (XI (XO XH))))))) :: ((Npos
    (XO (XO (XO (XI (XI (XI XH))))))) :: ((Npos (XI (XO (XO (XI (XI
    XH)))))) :: ((Npos (XI (XO (XO (XO (XO (XI XH))))))) :: [])))) :: (((Npos
    (XO (XO (XI (XI (XI (XO XH))))))) :: ((Npos (XO (XO (XO (XI (XI (XI
    XH))))))) :: ((Npos (XI (XO (XO (XI (XI XH)))))) :: ((Npos (XO (XI (XO
    (XO (XO (XI XH))))))) :: [])))) :: (((Npos (XO (XO (XI (XI (XI (XO
    XH))))))) :: ((Npos (XO (XO (XO (XI (XI (XI XH))))))) :: ((Npos (XI (XO
    (XO (XI (XI XH)))))) :: ((Npos (XI (XI (XO (XO (XO (XI
    XH))))))) :: [])))) :: (((Npos (XO (XO (XI (XI (XI (XO
    XH))))))) :: ((Npos (XO (XO (XO (XI (XI (XI XH))))))) :: ((Npos (XI (XO
    (XO (XI (XI XH)))))) :: ((Npos (XO (XO (XI (XO (XO (XI
    XH))))))) :: [])))) :: (((Npos (XO (XO (XI (XI (XI (XO
    XH))))))) :: ((Npos (XO (XO (XO (XI (XI (XI XH))))))) :: ((Npos (XI (XO
    (XO (XI (XI XH)))))) :: ((Npos (XI (XO (XI (XO (XO (XI
    XH))))))) :: [])))) :: (((Npos (XO (XO (XI (XI (XI (XO
    XH))))))) :: ((Npos (XO (XO (XO (XI (XI (XI XH))))))) :: ((Npos (XI (XO
    (XO (XI (XI XH)))))) :: ((Npos (XO (XI (XI (XO (XO (XI
    XH))))))) :: [])))) :: (((Npos (XO (XO (XI (XI (XI (XO
    XH))))))) :: ((Npos (XO (XO (XO (XI (XI (XI XH))))))) :: ((Npos (XI (XO
    (XO (XO (XO (XI XH))))))) :: ((Npos (XO (XO (XO (XO (XI
    XH)))))) :: [])))) :: (((Npos (XO (XO (XI (XI (XI (XO XH))))))) :: ((Npos
    (XO (XO (XO (XI (XI (XI XH))))))) :: ((Npos (XI (XO (XO (XO (XO (XI
    XH))))))) :: ((Npos (XI (XO (XO (XO (XI XH)))))) :: [])))) :: (((Npos (XO
    (XO (XI (XI (XI (XO XH))))))) :: ((Npos (XO (XO (XO (XI (XI (XI
    XH))))))) :: ((Npos (XI (XO (XO (XO (XO (XI XH))))))) :: ((Npos (XO (XI
    (XO (XO (XI XH)))))) :: [])))) :: (((Npos (XO (XO (XI (XI (XI (XO
    XH))))))) :: ((Npos (XO (XO (XO (XI (XI (XI XH))))))) :: ((Npos (XI (XO
    (XO (XO (XO (XI XH))))))) :: ((Npos (XI (XI (XO (XO (XI
    XH)))))) :: [])))) :: (((Npos (XO (XO (XI (XI (XI (XO XH))))))) :: ((Npos
    (XO (XO (XO (XI (XI (XI XH))))))) :: ((Npos (XI (XO (XO (XO (XO (XI
    XH))))))) :: ((Npos (XO (XO (XI (XO (XI XH)))))) :: [])))) :: (((Npos (XO
    (XO (XI (XI (XI (XO XH))))))) :: ((Npos (XO (XO (XO (XI (XI (XI
    XH))))))) :: ((Npos (XI (XO (XO (XO (XO (XI XH))))))) :: ((Npos (XI (XO
    (XI (XO (XI XH)))))) :: [])))) :: (((Npos (XO (XO (XI (XI (XI (XO
    XH))))))) :: ((Npos (XO (XO (XO (XI (XI (XI XH))))))) :: ((Npos (XI (XO
    (XO (XO (XO (XI XH))))))) :: ((Npos (XO (XI (XI (XO (XI
    XH)))))) :: [])))) :: (((Npos (XO (XO (XI (XI (XI (XO XH))))))) :: ((Npos
    (XO (XO (XO (XI (XI (XI XH))))))) :: ((Npos (XI (XO (XO (XO (XO (XI
    XH))))))) :: ((Npos (XI (XI (XI (XO (XI XH)))))) :: [])))) :: (((Npos (XO
    (XO (XI (XI (XI (XO XH))))))) :: ((Npos (XO (XO (XO (XI (XI (XI
    XH))))))) :: ((Npos (XI (XO (XO (XO (XO (XI XH))))))) :: ((Npos (XO (XO
    (XO (XI (XI XH)))))) :: [])))) :: (((Npos (XO (XO (XI (XI (XI (XO
    XH))))))) :: ((Npos (XO (XO (XO (XI (XI (XI XH))))))) :: ((Npos (XI (XO
    (XO (XO (XO (XI XH))))))) :: ((Npos (XI (XO (XO (XI (XI
    XH)))))) :: [])))) :: (((Npos (XO (XO (XI (XI (XI (XO XH))))))) :: ((Npos
    (XO (XO (XO (XI (XI (XI XH))))))) :: ((Npos (XI (XO (XO (XO (XO (XI
    XH))))))) :: ((Npos (XI (XO (XO (XO (XO (XI
    XH))))))) :: [])))) :: (((Npos (XO (XO (XI (XI (XI (XO
    XH))))))) :: ((Npos (XO (XO (XO (XI (XI (XI XH))))))) :: ((Npos (XI (XO
    (XO (XO (XO (XI XH))))))) :: ((Npos (XO (XI (XO (XO (XO (XI
    XH))))))) :: [])))) :: (((Npos (XO (XO (XI (XI (XI (XO
    XH))))))) :: ((Npos (XO (XO (XO (XI (XI (XI XH))))))) :: ((Npos (XI (XO
    (XO (XO (XO (XI XH))))))) :: ((Npos (XI (XI (XO (XO (XO (XI
    XH))))))) :: [])))) :: (((Npos (XO (XO (XI (XI (XI (XO
    XH))))))) :: ((Npos (XO (XO (XO (XI (XI (XI XH))))))) :: ((Npos (XI (XO
    (XO (XO (XO (XI XH))))))) :: ((Npos (XO (XO (XI (XO (XO (XI
    XH))))))) :: [])))) :: (((Npos (XO (XO (XI (XI (XI (XO
    XH))))))) :: ((Npos (XO (XO (XO (XI (XI (XI XH))))))) :: ((Npos (XI (XO
    (XO (XO (XO (XI XH))))))) :: ((Npos (XI (XO (XI (XO (XO (XI
    XH))))))) :: [])))) :: (((Npos (XO (XO (XI (XI (XI (XO
    XH))))))) :: ((Npos (XO (XO (XO (XI (XI (XI XH))))))) :: ((Npos (XI (XO
    (XO (XO (XO (XI XH))))))) :: ((Npos (XO (XI (XI (XO (XO (XI
    XH))))))) :: [])))) :: (((Npos (XO (XO (XI (XI (XI (XO
    XH))))))) :: ((Npos (XO (XO (XO (XI (XI (XI XH))))))) :: ((Npos (XO (XI
    (XO (XO (XO (XI XH))))))) :: ((Npos (XO (XO (XO (XO (XI
    XH)))))) :: [])))) :: (((Npos (XO (XO (XI (XI (XI (XO XH))))))) :: ((Npos
    (XO (XO (XO (XI (XI (XI XH))))))) :: ((Npos (XO (XI (XO (XO (XO (XI
    XH))))))) :: ((Npos (XI (XO (XO (XO (XI XH)))))) :: [])))) :: (((Npos (XO
    (XO (XI (XI (XI (XO XH))))))) :: ((Npos (XO (XO (XO (XI (XI (XI
    XH))))))) :: ((Npos (XO (XI (XO (XO (XO (XI XH))))))) :: ((Npos (XO (XI
    (XO (XO (XI XH)))))) :: [])))) :: (((Npos (XO (XO (XI (XI (XI (XO
    XH))))))) :: ((Npos (XO (XO (XO (XI (XI (XI XH))))))) :: ((Npos (XO (XI
    (XO (XO (XO (XI XH))))))) :: ((Npos (XI (XI (XO (XO (XI
    XH)))))) :: [])))) :: (((Npos (XO (XO (XI (XI (XI (XO XH))))))) :: ((Npos
    (XO (XO (XO (XI (XI (XI XH))))))) :: ((Npos (XO (XI (XO (XO (XO (XI
    XH))))))) :: ((Npos (XO (XO (XI (XO (XI XH)))))) :: [])))) :: (((Npos (XO
    (XO (XI (XI (XI (XO XH))))))) :: ((Npos (XO (XO (XO (XI (XI (XI
    XH))))))) :: ((Npos (XO (XI (XO (XO (XO (XI XH))))))) :: ((Npos (XI (XO
    (XI (XO (XI XH)))))) :: [])))) :: (((Npos (XO (XO (XI (XI (XI (XO
    XH))))))) :: ((Npos (XO (XO (XO (XI (XI (XI XH))))))) :: ((Npos (XO (XI
    (XO (XO (XO (XI XH))))))) :: ((Npos (XO (XI (XI (XO (XI
    XH)))))) :: [])))) :: (((Npos (XO (XO (XI (XI (XI (XO XH))))))) :: ((Npos
    (XO (XO (XO (XI (XI (XI XH))))))) :: ((Npos (XO (XI (XO (XO (XO (XI
    XH))))))) :: ((Npos (XI (XI (XI (XO (XI XH)))))) :: [])))) :: (((Npos (XO
    (XO (XI (XI (XI (XO XH))))))) :: ((Npos (XO (XO (XO (XI (XI (XI
    XH))))))) :: ((Npos (XO (XI (XO (XO (XO (XI XH))))))) :: ((Npos (XO (XO
    (XO (XI (XI XH)))))) :: [])))) :: (((Npos (XO (XO (XI (XI (XI (XO
    XH))))))) :: ((Npos (XO (XO (XO (XI (XI (XI XH))))))) :: ((Npos (XO (XI
    (XO (XO (XO (XI XH))))))) :: ((Npos (XI (XO (XO (XI (XI
    XH)))))) :: [])))) :: (((Npos (XO (XO (XI (XI (XI (XO XH))))))) :: ((Npos
    (XO (XO (XO (XI (XI (XI XH))))))) :: ((Npos (XO (XI (XO (XO (XO (XI
    XH))))))) :: ((Npos (XI (XO (XO (XO (XO (XI
    XH))))))) :: [])))) :: (((Npos (XO (XO (XI (XI (XI (XO
    XH))))))) :: ((Npos (XO (XO (XO (XI (XI (XI XH))))))) :: ((Npos (XO (XI
    (XO (XO (XO (XI XH))))))) :: ((Npos (XO (XI (XO (XO (XO (XI
    XH))))))) :: [])))) :: (((Npos (XO (XO (XI (XI (XI (XO
    XH))))))) :: ((Npos (XO (XO (XO (XI (XI (XI XH))))))) :: ((Npos (XO (XI
    (XO (XO (XO (XI XH))))))) :: ((Npos (XI (XI (XO (XO (XO (XI
    XH))))))) :: [])))) :: (((Npos (XO (XO (XI (XI (XI (XO
    XH))))))) :: ((Npos (XO (XO (XO (XI (XI (XI XH))))))) :: ((Npos (XO (XI
    (XO (XO (XO (XI XH))))))) :: ((Npos (XO (XO (XI (XO (XO (XI
    XH))))))) :: [])))) :: (((Npos (XO (XO (XI (XI (XI (XO
    XH))))))) :: ((Npos (XO (XO (XO (XI (XI (XI XH))))))) :: ((Npos (XO (XI
    (XO (XO (XO (XI XH))))))) :: ((Npos (XI (XO (XI (XO (XO (XI
    XH))))))) :: [])))) :: (((Npos (XO (XO (XI (XI (XI (XO
    XH))))))) :: ((Npos (XO (XO (XO (XI (XI (XI XH))))))) :: ((Npos (XO (XI
    (XO (XO (XO (XI XH))))))) :: ((Npos (XO (XI (XI (XO (XO (XI
    XH))))))) :: [])))) :: (((Npos (XO (XO (XI (XI (XI (XO
    XH))))))) :: ((Npos (XO (XO (XO (XI (XI (XI XH))))))) :: ((Npos (XI (XI
    (XO (XO (XO (XI XH))))))) :: ((Npos (XO (XO (XO (XO (XI
    XH)))))) :: [])))) :: (((Npos (XO (XO (XI (XI (XI (XO XH))))))) :: ((Npos
    (XO (XO (XO (XI (XI (XI XH))))))) :: ((Npos (XI (XI (XO (XO (XO (XI
    XH))))))) :: ((Npos (XI (XO (XO (XO (XI XH)))))) :: [])))) :: (((Npos (XO
    (XO (XI (XI (XI (XO XH))))))) :: ((Npos (XO (XO (XO (XI (XI (XI
    XH))))))) :: ((Npos (XI (XI (XO (XO (XO (XI XH))))))) :: ((Npos (XO (XI
    (XO (XO (XI XH)))))) :: [])))) :: (((Npos (XO (XO (XI (XI (XI (XO
    XH))))))) :: ((Npos (XO (XO (XO (XI (XI (XI XH))))))) :: ((Npos (XI (XI
    (XO (XO (XO (XI XH))))))) :: ((Npos (XI (XI (XO (XO (XI
    XH)))))) :: [])))) :: (((Npos (XO (XO (XI (XI (XI (XO XH))))))) :: ((Npos
    (XO (XO (XO (XI (XI (XI XH))))))) :: ((Npos (XI (XI (XO (XO (XO (XI
    XH))))))) :: ((Npos (XO (XO (XI (XO (XI XH)))))) :: [])))) :: (((Npos (XO
    (XO (XI (XI (XI (XO XH))))))) :: ((Npos (XO (XO (XO (XI (XI (XI
    XH))))))) :: ((Npos (XI (XI (XO (XO (XO (XI XH))))))) :: ((Npos (XI (XO
    (XI (XO (XI XH)))))) :: [])))) :: (((Npos (XO (XO (XI (XI (XI (XO
    XH))))))) :: ((Npos (XO (XO (XO (XI (XI (XI XH))))))) :: ((Npos (XI (XI
    (XO (XO (XO (XI XH))))))) :: ((Npos (XO (XI (XI (XO (XI
    XH)))))) :: [])))) :: (((Npos (XO (XO (XI (XI (XI (XO XH))))))) :: ((Npos
    (XO (XO (XO (XI (XI (XI XH))))))) :: ((Npos (XI (XI (XO (XO (XO (XI
    XH))))))) :: ((Npos (XI (XI (XI (XO (XI XH)))))) :: [])))) :: (((Npos (XO
    (XO (XI (XI (XI (XO XH))))))) :: ((Npos (XO (XO (XO (XI (XI (XI
    XH))))))) :: ((Npos (XI (XI (XO (XO (XO (XI XH))))))) :: ((Npos (XO (XO
    (XO (XI (XI XH)))))) :: [])))) :: (((Npos (XO (XO (XI (XI (XI (XO
    XH))))))) :: ((Npos (XO (XO (XO (XI (XI (XI XH))))))) :: ((Npos (XI (XI
    (XO (XO (XO (XI XH))))))) :: ((Npos (XI (XO (XO (XI (XI
    XH)))))) :: [])))) :: (((Npos (XO (XO (XI (XI (XI (XO XH))))))) :: ((Npos
    (XO (XO (XO (XI (XI (XI XH))))))) :: ((Npos (XI (XI (XO (XO (XO (XI
    XH))))))) :: ((Npos (XI (XO (XO (XO (XO (XI
    XH))))))) :: [])))) :: (((Npos (XO (XO (XI (XI (XI (XO
    XH))))))) :: ((Npos (XO (XO (XO (XI (XI (XI XH))))))) :: ((Npos (XI (XI
    (XO (XO (XO (XI XH))))))) :: ((Npos (XO (XI (XO (XO (XO (XI
    XH))))))) :: [])))) :: (((Npos (XO (XO (XI (XI (XI (XO
    XH))))))) :: ((Npos (XO (XO (XO (XI (XI (XI XH))))))) :: ((Npos (XI (XI
    (XO (XO (XO (XI XH))))))) :: ((Npos (XI (XI (XO (XO (XO (XI
    XH))))))) :: [])))) :: (((Npos (XO (XO (XI (XI (XI (XO
    XH))))))) :: ((Npos (XO (XO (XO (XI (XI (XI XH))))))) :: ((Npos (XI (XI
    (XO (XO (XO (XI XH))))))) :: ((Npos (XO (XO (XI (XO (XO (XI
    XH))))))) :: [])))) :: (((Npos (XO (XO (XI (XI (XI (XO
    XH))))))) :: ((Npos (XO (XO (XO (XI (XI (XI XH))))))) :: ((Npos (XI (XI
    (XO (XO (XO (XI XH))))))) :: ((Npos (XI (XO (XI (XO (XO (XI
    XH))))))) :: [])))) :: (((Npos (XO (XO (XI (XI (XI (XO
    XH))))))) :: ((Npos (XO (XO (XO (XI (XI (XI XH))))))) :: ((Npos (XI (XI
    (XO (XO (XO (XI XH))))))) :: ((Npos (XO (XI (XI (XO (XO (XI
    XH))))))) :: [])))) :: (((Npos (XO (XO (XI (XI (XI (XO
    XH))))))) :: ((Npos (XO (XO (XO (XI (XI (XI XH))))))) :: ((Npos (XO (XO
    (XI (XO (XO (XI XH))))))) :: ((Npos (XO (XO (XO (XO (XI
    XH)))))) :: [])))) :: (((Npos (XO (XO (XI (XI (XI (XO XH))))))) :: ((Npos
    (XO (XO (XO (XI (XI (XI XH))))))) :: ((Npos (XO (XO (XI (XO (XO (XI
    XH))))))) :: ((Npos (XI (XO (XO (XO (XI XH)))))) :: [])))) :: (((Npos (XO
    (XO (XI (XI (XI (XO XH))))))) :: ((Npos (XO (XO (XO (XI (XI (XI
    XH))))))) :: ((Npos (XO (XO (XI (XO (XO (XI XH))))))) :: ((Npos (XO (XI
    (XO (XO (XI XH)))))) :: [])))) :: (((Npos (XO (XO (XI (XI (XI (XO
    XH))))))) :: ((Npos (XO (XO (XO (XI (XI (XI XH))))))) :: ((Npos (XO (XO
    (XI (XO (XO (XI XH))))))) :: ((Npos (XI (XI (XO (XO (XI
    XH)))))) :: [])))) :: (((Npos (XO (XO (XI (XI (XI (XO XH))))))) :: ((Npos
    (XO (XO (XO (XI (XI (XI XH))))))) :: ((Npos (XO (XO (XI (XO (XO (XI
    XH))))))) :: ((Npos (XO (XO (XI (XO (XI XH)))))) :: [])))) :: (((Npos (XO
    (XO (XI (XI (XI (XO XH))))))) :: ((Npos (XO (XO (XO (XI (XI (XI
    XH))))))) :: ((Npos (XO (XO (XI (XO (XO (XI XH))))))) :: ((Npos (XI (XO
    (XI (XO (XI XH)))))) :: [])))) :: (((Npos (XO (XO (XI (XI (XI (XO
    XH))))))) :: ((Npos (XO (XO (XO (XI (XI (XI XH))))))) :: ((Npos (XO (XO
    (XI (XO (XO (XI XH))))))) :: ((Npos (XO (XI (XI (XO (XI
    XH)))))) :: [])))) :: (((Npos (XO (XO (XI (XI (XI (XO XH))))))) :: ((Npos
    (XO (XO (XO (XI (XI (XI XH))))))) :: ((Npos (XO (XO (XI (XO (XO (XI
    XH))))))) :: ((Npos (XI (XI (XI (XO (XI XH)))))) :: [])))) :: (((Npos (XO
    (XO (XI (XI (XI (XO XH))))))) :: ((Npos (XO (XO (XO (XI (XI (XI
    XH))))))) :: ((Npos (XO (XO (XI (XO (XO (XI XH))))))) :: ((Npos (XO (XO
    (XO (XI (XI XH)))))) :: [])))) :: (((Npos (XO (XO (XI (XI (XI (XO
    XH))))))) :: ((Npos (XO (XO (XO (XI (XI (XI XH))))))) :: ((Npos (XO (XO
    (XI (XO (XO (XI XH))))))) :: ((Npos (XI (XO (XO (XI (XI
    XH)))))) :: [])))) :: (((Npos (XO (XO (XI (XI (XI (XO XH))))))) :: ((Npos
    (XO (XO (XO (XI (XI (XI XH))))))) :: ((Npos (XO (XO (XI (XO (XO (XI
    XH))))))) :: ((Npos (XI (XO (XO (XO (XO (XI
    XH))))))) :: [])))) :: (((Npos (XO (XO (XI (XI (XI (XO
    XH))))))) :: ((Npos (XO (XO (XO (XI (XI (XI XH))))))) :: ((Npos (XO (XO
    (XI (XO (XO (XI XH))))))) :: ((Npos (XO (XI (XO (XO (XO (XI
    XH))))))) :: [])))) :: (((Npos (XO (XO (XI (XI (XI (XO
    XH))))))) :: ((Npos (XO (XO (XO (XI (XI (XI XH))))))) :: ((Npos (XO (XO
    (XI (XO (XO (XI XH))))))) :: ((Npos (XI (XI (XO (XO (XO (XI
    XH))))))) :: [])))) :: (((Npos (XO (XO (XI (XI (XI (XO
    XH))))))) :: ((Npos (XO (XO (XO (XI (XI (XI XH))))))) :: ((Npos (XO (XO
    (XI (XO (XO (XI XH))))))) :: ((Npos (XO (XO (XI (XO (XO (XI
    XH))))))) :: [])))) :: (((Npos (XO (XO (XI (XI (XI (XO
    XH))))))) :: ((Npos (XO (XO (XO (XI (XI (XI XH))))))) :: ((Npos (XO (XO
    (XI (XO (XO (XI XH))))))) :: ((Npos (XI (XO (XI (XO (XO (XI
    XH))))))) :: [])))) :: (((Npos (XO (XO (XI (XI (XI (XO
    XH))))))) :: ((Npos (XO (XO (XO (XI (XI (XI XH))))))) :: ((Npos (XO (XO
    (XI (XO (XO (XI XH))))))) :: ((Npos (XO (XI (XI (XO (XO (XI
    XH))))))) :: [])))) :: (((Npos (XO (XO (XI (XI (XI (XO
    XH))))))) :: ((Npos (XO (XO (XO (XI (XI (XI XH))))))) :: ((Npos (XI (XO
    (XI (XO (XO (XI XH))))))) :: ((Npos (XO (XO (XO (XO (XI
    XH)))))) :: [])))) :: (((Npos (XO (XO (XI (XI (XI (XO XH))))))) :: ((Npos
    (XO (XO (XO (XI (XI (XI XH))))))) :: ((Npos (XI (XO (XI (XO (XO (XI
    XH))))))) :: ((Npos (XI (XO (XO (XO (XI XH)))))) :: [])))) :: (((Npos (XO
    (XO (XI (XI (XI (XO XH))))))) :: ((Npos (XO (XO (XO (XI (XI (XI
    XH))))))) :: ((Npos (XI (XO (XI (XO (XO (XI XH))))))) :: ((Npos (XO (XI
    (XO (XO (XI XH)))))) :: [])))) :: (((Npos (XO (XO (XI (XI (XI (XO
    XH))))))) :: ((Npos (XO (XO (XO (XI (XI (XI XH))))))) :: ((Npos (XI (XO
    (XI (XO (XO (XI XH))))))) :: ((Npos (XI (XI (XO (XO (XI
    XH)))))) :: [])))) :: (((Npos (XO (XO (XI (XI (XI (XO XH))))))) :: ((Npos
    (XO (XO (XO (XI (XI (XI XH))))))) :: ((Npos (XI (XO (XI (XO (XO (XI
    XH))))))) :: ((Npos (XO (XO (XI (XO (XI XH)))))) :: [])))) :: (((Npos (XO
    (XO (XI (XI (XI (XO XH))))))) :: ((Npos (XO (XO (XO (XI (XI (XI
    XH))))))) :: ((Npos (XI (XO (XI (XO (XO (XI XH))))))) :: ((Npos (XI (XO
    (XI (XO (XI XH)))))) :: [])))) :: (((Npos (XO (XO (XI (XI (XI (XO
    XH))))))) :: ((Npos (XO (XO (XO (XI (XI (XI XH))))))) :: ((Npos (XI (XO
    (XI (XO (XO (XI XH))))))) :: ((Npos (XO (XI (XI (XO (XI
    XH)))))) :: [])))) :: (((Npos (XO (XO (XI (XI (XI (XO XH))))))) :: ((Npos
    (XO (XO (XO (XI (XI (XI XH))))))) :: ((Npos (XI (XO (XI (XO (XO (XI
    XH))))))) :: ((Npos (XI (XI (XI (XO (XI XH)))))) :: [])))) :: (((Npos (XO
    (XO (XI (XI (XI (XO XH))))))) :: ((Npos (XO (XO (XO (XI (XI (XI
    XH))))))) :: ((Npos (XI (XO (XI (XO (XO (XI XH))))))) :: ((Npos (XO (XO
    (XO (XI (XI XH)))))) :: [])))) :: (((Npos (XO (XO (XI (XI (XI (XO
    XH))))))) :: ((Npos (XO (XO (XO (XI (XI (XI XH))))))) :: ((Npos (XI (XO
    (XI (XO (XO (XI XH))))))) :: ((Npos (XI (XO (XO (XI (XI
    XH)))))) :: [])))) :: (((Npos (XO (XO (XI (XI (XI (XO XH))))))) :: ((Npos
    (XO (XO (XO (XI (XI (XI XH))))))) :: ((Npos (XI (XO (XI (XO (XO (XI
    XH))))))) :: ((Npos (XI (XO (XO (XO (XO (XI
    XH))))))) :: [])))) :: (((Npos (XO (XO (XI (XI (XI (XO
    XH))))))) :: ((Npos (XO (XO (XO (XI (XI (XI XH))))))) :: ((Npos (XI (XO
    (XI (XO (XO (XI XH))))))) :: ((Npos (XO (XI (XO (XO (XO (XI
    XH))))))) :: [])))) :: (((Npos (XO (XO (XI (XI (XI (XO
    XH))))))) :: ((Npos (XO (XO (XO (XI (XI (XI XH))))))) :: ((Npos (XI (XO
    (XI (XO (XO (XI XH))))))) :: ((Npos (XI (XI (XO (XO (XO (XI
    XH))))))) :: [])))) :: (((Npos (XO (XO (XI (XI (XI (XO
    XH))))))) :: ((Npos (XO (XO (XO (XI (XI (XI XH))))))) :: ((Npos (XI (XO
    (XI (XO (XO (XI XH))))))) :: ((Npos (XO (XO (XI (XO (XO (XI
    XH))))))) :: [])))) :: (((Npos (XO (XO (XI (XI (XI (XO
    XH))))))) :: ((Npos (XO (XO (XO (XI (XI (XI XH))))))) :: ((Npos (XI (XO
    (XI (XO (XO (XI XH))))))) :: ((Npos (XI (XO (XI (XO (XO (XI
    XH))))))) :: [])))) :: (((Npos (XO (XO (XI (XI (XI (XO
    XH))))))) :: ((Npos (XO (XO (XO (XI (XI (XI XH))))))) :: ((Npos (XI (XO
    (XI (XO (XO (XI XH))))))) :: ((Npos (XO (XI (XI (XO (XO (XI
    XH))))))) :: [])))) :: (((Npos (XO (XO (XI (XI (XI (XO
    XH))))))) :: ((Npos (XO (XO (XO (XI (XI (XI XH))))))) :: ((Npos (XO (XI
    (XI (XO (XO (XI XH))))))) :: ((Npos (XO (XO (XO (XO (XI
    XH)))))) :: [])))) :: (((Npos (XO (XO (XI (XI (XI (XO XH))))))) :: ((Npos
    (XO (XO (XO (XI (XI (XI XH))))))) :: ((Npos (XO (XI (XI (XO (XO (XI
    XH))))))) :: ((Npos (XI (XO (XO (XO (XI XH)))))) :: [])))) :: (((Npos (XO
    (XO (XI (XI (XI (XO XH))))))) :: ((Npos (XO (XO (XO (XI (XI (XI
    XH))))))) :: ((Npos (XO (XI (XI (XO (XO (XI XH))))))) :: ((Npos (XO (XI
    (XO (XO (XI XH)))))) :: [])))) :: (((Npos (XO (XO (XI (XI (XI (XO
    XH))))))) :: ((Npos (XO (XO (XO (XI (XI (XI XH))))))) :: ((Npos (XO (XI
    (XI (XO (XO (XI XH))))))) :: ((Npos (XI (XI (XO (XO (XI
    XH)))))) :: [])))) :: (((Npos (XO (XO (XI (XI (XI (XO XH))))))) :: ((Npos
    (XO (XO (XO (XI (XI (XI XH))))))) :: ((Npos (XO (XI (XI (XO (XO (XI
    XH))))))) :: ((Npos (XO (XO (XI (XO (XI XH)))))) :: [])))) :: (((Npos (XO
    (XO (XI (XI (XI (XO XH))))))) :: ((Npos (XO (XO (XO (XI (XI (XI
    XH))))))) :: ((Npos (XO (XI (XI (XO (XO (XI XH))))))) :: ((Npos (XI (XO
    (XI (XO (XI XH)))))) :: [])))) :: (((Npos (XO (XO (XI (XI (XI (XO
    XH))))))) :: ((Npos (XO (XO (XO (XI (XI (XI XH))))))) :: ((Npos (XO (XI
    (XI (XO (XO (XI XH))))))) :: ((Npos (XO (XI (XI (XO (XI
    XH)))))) :: [])))) :: (((Npos (XO (XO (XI (XI (XI (XO XH))))))) :: ((Npos
    (XO (XO (XO (XI (XI (XI XH))))))) :: ((Npos (XO (XI (XI (XO (XO (XI
    XH))))))) :: ((Npos (XI (XI (XI (XO (XI XH)))))) :: [])))) :: (((Npos (XO
    (XO (XI (XI (XI (XO XH))))))) :: ((Npos (XO (XO (XO (XI (XI (XI
    XH))))))) :: ((Npos (XO (XI (XI (XO (XO (XI XH))))))) :: ((Npos (XO (XO
    (XO (XI (XI XH)))))) :: [])))) :: (((Npos (XO (XO (XI (XI (XI (XO
    XH))))))) :: ((Npos (XO (XO (XO (XI (XI (XI XH))))))) :: ((Npos (XO (XI
    (XI (XO (XO (XI XH))))))) :: ((Npos (XI (XO (XO (XI (XI
    XH)))))) :: [])))) :: (((Npos (XO (XO (XI (XI (XI (XO XH))))))) :: ((Npos
    (XO (XO (XO (XI (XI (XI XH))))))) :: ((Npos (XO (XI (XI (XO (XO (XI
    XH))))))) :: ((Npos (XI (XO (XO (XO (XO (XI
    XH))))))) :: [])))) :: (((Npos (XO (XO (XI (XI (XI (XO
    XH))))))) :: ((Npos (XO (XO (XO (XI (XI (XI XH))))))) :: ((Npos (XO (XI
    (XI (XO (XO (XI XH))))))) :: ((Npos (XO (XI (XO (XO (XO (XI
    XH))))))) :: [])))) :: (((Npos (XO (XO (XI (XI (XI (XO
    XH))))))) :: ((Npos (XO (XO (XO (XI (XI (XI XH))))))) :: ((Npos (XO (XI
    (XI (XO (XO (XI XH))))))) :: ((Npos (XI (XI (XO (XO (XO (XI
    XH))))))) :: [])))) :: (((Npos (XO (XO (XI (XI (XI (XO
    XH))))))) :: ((Npos (XO (XO (XO (XI (XI (XI XH))))))) :: ((Npos (XO (XI
    (XI (XO (XO (XI XH))))))) :: ((Npos (XO (XO (XI (XO (XO (XI
    XH))))))) :: [])))) :: (((Npos (XO (XO (XI (XI (XI (XO
    XH))))))) :: ((Npos (XO (XO (XO (XI (XI (XI XH))))))) :: ((Npos (XO (XI
    (XI (XO (XO (XI XH))))))) :: ((Npos (XI (XO (XI (XO (XO (XI
    XH))))))) :: [])))) :: (((Npos (XO (XO (XI (XI (XI (XO
    XH))))))) :: ((Npos (XO (XO (XO (XI (XI (XI XH))))))) :: ((Npos (XO (XI
    (XI (XO (XO (XI XH))))))) :: ((Npos (XO (XI (XI (XO (XO (XI
    XH))))))) :: [])))) :: (((Npos (XO (XO (XO (XO (XO (XO (XO (XO
    XH))))))))) :: []) :: (((Npos (XI (XO (XO (XO (XO (XO (XO (XO
    XH))))))))) :: []) :: (((Npos (XO (XI (XO (XO (XO (XO (XO (XO
    XH))))))))) :: []) :: (((Npos (XI (XI (XO (XO (XO (XO (XO (XO
    XH))))))))) :: []) :: (((Npos (XO (XO (XI (XO (XO (XO (XO (XO
    XH))))))))) :: []) :: (((Npos (XI (XO (XI (XO (XO (XO (XO (XO
    XH))))))))) :: []) :: (((Npos (XO (XI (XI (XO (XO (XO (XO (XO
    XH))))))))) :: []) :: (((Npos (XI (XI (XI (XO (XO (XO (XO (XO
    XH))))))))) :: []) :: (((Npos (XO (XO (XO (XI (XO (XO (XO (XO
    XH))))))))) :: []) :: (((Npos (XI (XO (XO (XI (XO (XO (XO (XO
    XH))))))))) :: []) :: (((Npos (XO (XI (XO (XI (XO (XO (XO (XO
    XH))))))))) :: []) :: (((Npos (XI (XI (XO (XI (XO (XO (XO (XO
    XH))))))))) :: []) :: (((Npos (XO (XO (XI (XI (XO (XO (XO (XO
    XH))))))))) :: []) :: (((Npos (XI (XO (XI (XI (XO (XO (XO (XO
    XH))))))))) :: []) :: (((Npos (XO (XI (XI (XI (XO (XO (XO (XO
    XH))))))))) :: []) :: (((Npos (XI (XI (XI (XI (XO (XO (XO (XO
    XH))))))))) :: []) :: (((Npos (XO (XO (XO (XO (XI (XO (XO (XO
    XH))))))))) :: []) :: (((Npos (XI (XO (XO (XO (XI (XO (XO (XO
    XH))))))))) :: []) :: (((Npos (XO (XI (XO (XO (XI (XO (XO (XO
    XH))))))))) :: []) :: (((Npos (XI (XI (XO (XO (XI (XO (XO (XO
    XH))))))))) :: []) :: (((Npos (XO (XO (XI (XO (XI (XO (XO (XO
    XH))))))))) :: []) :: (((Npos (XI (XO (XI (XO (XI (XO (XO (XO
    XH))))))))) :: []) :: (((Npos (XO (XI (XI (XO (XI (XO (XO (XO
    XH))))))))) :: []) :: (((Npos (XI (XI (XI (XO (XI (XO (XO (XO
    XH))))))))) :: []) :: (((Npos (XO (XO (XO (XI (XI (XO (XO (XO
    XH))))))))) :: []) :: (((Npos (XI (XO (XO (XI (XI (XO (XO (XO
    XH))))))))) :: []) :: (((Npos (XO (XI (XO (XI (XI (XO (XO (XO
    XH))))))))) :: []) :: (((Npos (XI (XI (XO (XI (XI (XO (XO (XO
    XH))))))))) :: []) :: (((Npos (XO (XO (XI (XI (XI (XO (XO (XO
    XH))))))))) :: []) :: (((Npos (XI (XO (XI (XI (XI (XO (XO (XO
    XH))))))))) :: []) :: (((Npos (XO (XI (XI (XI (XI (XO (XO (XO
    XH))))))))) :: []) :: (((Npos (XI (XI (XI (XI (XI (XO (XO (XO
    XH))))))))) :: []) :: (((Npos (XO (XO (XO (XO (XO (XI (XO (XO
    XH))))))))) :: []) :: (((Npos (XI (XO (XO (XO (XO (XI (XO (XO
    XH))))))))) :: []) :: (((Npos (XO (XI (XO (XO (XO (XI (XO (XO
    XH))))))))) :: []) :: (((Npos (XI (XI (XO (XO (XO (XI (XO (XO
    XH))))))))) :: []) :: (((Npos (XO (XO (XI (XO (XO (XI (XO (XO
    XH))))))))) :: []) :: (((Npos (XI (XO (XI (XO (XO (XI (XO (XO
    XH))))))))) :: []) :: (((Npos (XO (XI (XI (XO (XO (XI (XO (XO
    XH))))))))) :: []) :: (((Npos (XI (XI (XI (XO (XO (XI (XO (XO
    XH))))))))) :: []) :: (((Npos (XO (XO (XO (XI (XO (XI (XO (XO
    XH))))))))) :: []) :: (((Npos (XI (XO (XO (XI (XO (XI (XO (XO
    XH))))))))) :: []) :: (((Npos (XO (XI (XO (XI (XO (XI (XO (XO
    XH))))))))) :: []) :: (((Npos (XI (XI (XO (XI (XO (XI (XO (XO
    XH))))))))) :: []) :: (((Npos (XO (XO (XI (XI (XO (XI (XO (XO
    XH))))))))) :: []) :: (((Npos (XI (XO (XI (XI (XO (XI (XO (XO
    XH))))))))) :: []) :: (((Npos (XO (XI (XI (XI (XO (XI (XO (XO
    XH))))))))) :: []) :: (((Npos (XI (XI (XI (XI (XO (XI (XO (XO
    XH))))))))) :: []) :: (((Npos (XO (XO (XO (XO (XI (XI (XO (XO
    XH))))))))) :: []) :: (((Npos (XI (XO (XO (XO (XI (XI (XO (XO
    XH))))))))) :: []) :: (((Npos (XO (XI (XO (XO (XI (XI (XO (XO
    XH))))))))) :: []) :: (((Npos (XI (XI (XO (XO (XI (XI (XO (XO
    XH))))))))) :: []) :: (((Npos (XO (XO (XI (XO (XI (XI (XO (XO
    XH))))))))) :: []) :: (((Npos (XI (XO (XI (XO (XI (XI (XO (XO
    XH))))))))) :: []) :: (((Npos (XO (XI (XI (XO (XI (XI (XO (XO
    XH))))))))) :: []) :: (((Npos (XI (XI (XI (XO (XI (XI (XO (XO
    XH))))))))) :: []) :: (((Npos (XO (XO (XO (XI (XI (XI (XO (XO
    XH))))))))) :: []) :: (((Npos (XI (XO (XO (XI (XI (XI (XO (XO
    XH))))))))) :: []) :: (((Npos (XO (XI (XO (XI (XI (XI (XO (XO
    XH))))))))) :: []) :: (((Npos (XI (XI (XO (XI (XI (XI (XO (XO
    XH))))))))) :: []) :: (((Npos (XO (XO (XI (XI (XI (XI (XO (XO
    XH))))))))) :: []) :: (((Npos (XI (XO (XI (XI (XI (XI (XO (XO
    XH))))))))) :: []) :: (((Npos (XO (XI (XI (XI (XI (XI (XO (XO
    XH))))))))) :: []) :: (((Npos (XI (XI (XI (XI (XI (XI (XO (XO
    XH))))))))) :: []) :: (((Npos (XO (XO (XO (XO (XO (XO (XI (XO
    XH))))))))) :: []) :: (((Npos (XI (XO (XO (XO (XO (XO (XI (XO
    XH))))))))) :: []) :: (((Npos (XO (XI (XO (XO (XO (XO (XI (XO
    XH))))))))) :: []) :: (((Npos (XI (XI (XO (XO (XO (XO (XI (XO
    XH))))))))) :: []) :: (((Npos (XO (XO (XI (XO (XO (XO (XI (XO
    XH))))))))) :: []) :: (((Npos (XI (XO (XI (XO (XO (XO (XI (XO
    XH))))))))) :: []) :: (((Npos (XO (XI (XI (XO (XO (XO (XI (XO
    XH))))))))) :: []) :: (((Npos (XI (XI (XI (XO (XO (XO (XI (XO
    XH))))))))) :: []) :: (((Npos (XO (XO (XO (XI (XO (XO (XI (XO
    XH))))))))) :: []) :: (((Npos (XI (XO (XO (XI (XO (XO (XI (XO
    XH))))))))) :: []) :: (((Npos (XO (XI (XO (XI (XO (XO (XI (XO
    XH))))))))) :: []) :: (((Npos (XI (XI (XO (XI (XO (XO (XI (XO
    XH))))))))) :: []) :: (((Npos (XO (XO (XI (XI (XO (XO (XI (XO
    XH))))))))) :: []) :: (((Npos (XI (XO (XI (XI (XO (XO (XI (XO
    XH))))))))) :: []) :: (((Npos (XO (XI (XI (XI (XO (XO (XI (XO
    XH))))))))) :: []) :: (((Npos (XI (XI (XI (XI (XO (XO (XI (XO
    XH))))))))) :: []) :: (((Npos (XO (XO (XO (XO (XI (XO (XI (XO
    XH))))))))) :: []) :: (((Npos (XI (XO (XO (XO (XI (XO (XI (XO
    XH))))))))) :: []) :: (((Npos (XO (XI (XO (XO (XI (XO (XI (XO
    XH))))))))) :: []) :: (((Npos (XI (XI (XO (XO (XI (XO (XI (XO
    XH))))))))) :: []) :: (((Npos (XO (XO (XI (XO (XI (XO (XI (XO
    XH))))))))) :: []) :: (((Npos (XI (XO (XI (XO (XI (XO (XI (XO
    XH))))))))) :: []) :: (((Npos (XO (XI (XI (XO (XI (XO (XI (XO
    XH))))))))) :: []) :: (((Npos (XI (XI (XI (XO (XI (XO (XI (XO
    XH))))))))) :: []) :: (((Npos (XO (XO (XO (XI (XI (XO (XI (XO
    XH))))))))) :: []) :: (((Npos (XI (XO (XO (XI (XI (XO (XI (XO
    XH))))))))) :: []) :: (((Npos (XO (XI (XO (XI (XI (XO (XI (XO
    XH))))))))) :: []) :: (((Npos (XI (XI (XO (XI (XI (XO (XI (XO
    XH))))))))) :: []) :: (((Npos (XO (XO (XI (XI (XI (XO (XI (XO
    XH))))))))) :: []) :: (((Npos (XI (XO (XI (XI (XI (XO (XI (XO
    XH))))))))) :: []) :: (((Npos (XO (XI (XI (XI (XI (XO (XI (XO
    XH))))))))) :: []) :: (((Npos (XI (XI (XI (XI (XI (XO (XI (XO
    XH))))))))) :: []) :: (((Npos (XO (XO (XO (XO (XO (XI (XI (XO
    XH))))))))) :: []) :: (((Npos (XI (XO (XO (XO (XO (XI (XI (XO
    XH))))))))) :: []) :: (((Npos (XO (XI (XO (XO (XO (XI (XI (XO
    XH))))))))) :: []) :: (((Npos (XI (XI (XO (XO (XO (XI (XI (XO
    XH))))))))) :: []) :: (((Npos (XO (XO (XI (XO (XO (XI (XI (XO
    XH))))))))) :: []) :: (((Npos (XI (XO (XI (XO (XO (XI (XI (XO
    XH))))))))) :: []) :: (((Npos (XO (XI (XI (XO (XO (XI (XI (XO
    XH))))))))) :: []) :: (((Npos (XI (XI (XI (XO (XO (XI (XI (XO
    XH))))))))) :: []) :: (((Npos (XO (XO (XO (XI (XO (XI (XI (XO
    XH))))))))) :: []) :: (((Npos (XI (XO (XO (XI (XO (XI (XI (XO
    XH))))))))) :: []) :: (((Npos (XO (XI (XO (XI (XO (XI (XI (XO
    XH))))))))) :: []) :: (((Npos (XI (XI (XO (XI (XO (XI (XI (XO
    XH))))))))) :: []) :: (((Npos (XO (XO (XI (XI (XO (XI (XI (XO
    XH))))))))) :: []) :: (((Npos (XI (XO (XI (XI (XO (XI (XI (XO
    XH))))))))) :: []) :: (((Npos (XO (XI (XI (XI (XO (XI (XI (XO
    XH))))))))) :: []) :: (((Npos (XI (XI (XI (XI (XO (XI (XI (XO
    XH))))))))) :: []) :: (((Npos (XO (XO (XO (XO (XI (XI (XI (XO
    XH))))))))) :: []) :: (((Npos (XI (XO (XO (XO (XI (XI (XI (XO
    XH))))))))) :: []) :: (((Npos (XO (XI (XO (XO (XI (XI (XI (XO
    XH))))))))) :: []) :: (((Npos (XI (XI (XO (XO (XI (XI (XI (XO
    XH))))))))) :: []) :: (((Npos (XO (XO (XI (XO (XI (XI (XI (XO
    XH))))))))) :: []) :: (((Npos (XI (XO (XI (XO (XI (XI (XI (XO
    XH))))))))) :: []) :: (((Npos (XO (XI (XI (XO (XI (XI (XI (XO
    XH))))))))) :: []) :: (((Npos (XI (XI (XI (XO (XI (XI (XI (XO
    XH))))))))) :: []) :: (((Npos (XO (XO (XO (XI (XI (XI (XI (XO
    XH))))))))) :: []) :: (((Npos (XI (XO (XO (XI (XI (XI (XI (XO
    XH))))))))) :: []) :: (((Npos (XO (XI (XO (XI (XI (XI (XI (XO
    XH))))))))) :: []) :: (((Npos (XI (XI (XO (XI (XI (XI (XI (XO
    XH))))))))) :: []) :: (((Npos (XO (XO (XI (XI (XI (XI (XI (XO
    XH))))))))) :: []) :: (((Npos (XI (XO (XI (XI (XI (XI (XI (XO
    XH))))))))) :: []) :: (((Npos (XO (XI (XI (XI (XI (XI (XI (XO
    XH))))))))) :: []) :: (((Npos (XI (XI (XI (XI (XI (XI (XI (XO
    XH))))))))) :: []) :: (((Npos (XO (XO (XO (XO (XO (XO (XO (XI
    XH))))))))) :: []) :: (((Npos (XI (XO (XO (XO (XO (XO (XO (XI
    XH))))))))) :: []) :: (((Npos (XO (XI (XO (XO (XO (XO (XO (XI
    XH))))))))) :: []) :: (((Npos (XI (XI (XO (XO (XO (XO (XO (XI
    XH))))))))) :: []) :: (((Npos (XO (XO (XI (XO (XO (XO (XO (XI
    XH))))))))) :: []) :: (((Npos (XI (XO (XI (XO (XO (XO (XO (XI
    XH))))))))) :: []) :: (((Npos (XO (XI (XI (XO (XO (XO (XO (XI
    XH))))))))) :: []) :: (((Npos (XI (XI (XI (XO (XO (XO (XO (XI
    XH))))))))) :: []) :: (((Npos (XO (XO (XO (XI (XO (XO (XO (XI
    XH))))))))) :: []) :: (((Npos (XI (XO (XO (XI (XO (XO (XO (XI
    XH))))))))) :: []) :: (((Npos (XO (XI (XO (XI (XO (XO (XO (XI
    XH))))))))) :: []) :: (((Npos (XI (XI (XO (XI (XO (XO (XO (XI
    XH))))))))) :: []) :: (((Npos (XO (XO (XI (XI (XO (XO (XO (XI
    XH))))))))) :: []) :: (((Npos (XI (XO (XI (XI (XO (XO (XO (XI
    XH))))))))) :: []) :: (((Npos (XO (XI (XI (XI (XO (XO (XO (XI
    XH))))))))) :: []) :: (((Npos (XI (XI (XI (XI (XO (XO (XO (XI
    XH))))))))) :: []) :: (((Npos (XO (XO (XO (XO (XI (XO (XO (XI
    XH))))))))) :: []) :: (((Npos (XI (XO (XO (XO (XI (XO (XO (XI
    XH))))))))) :: []) :: (((Npos (XO (XI (XO (XO (XI (XO (XO (XI
    XH))))))))) :: []) :: (((Npos (XI (XI (XO (XO (XI (XO (XO (XI
    XH))))))))) :: []) :: (((Npos (XO (XO (XI (XO (XI (XO (XO (XI
    XH))))))))) :: []) :: (((Npos (XI (XO (XI (XO (XI (XO (XO (XI
    XH))))))))) :: []) :: (((Npos (XO (XI (XI (XO (XI (XO (XO (XI
    XH))))))))) :: []) :: (((Npos (XI (XI (XI (XO (XI (XO (XO (XI
    XH))))))))) :: []) :: (((Npos (XO (XO (XO (XI (XI (XO (XO (XI
    XH))))))))) :: []) :: (((Npos (XI (XO (XO (XI (XI (XO (XO (XI
    XH))))))))) :: []) :: (((Npos (XO (XI (XO (XI (XI (XO (XO (XI
    XH))))))))) :: []) :: (((Npos (XI (XI (XO (XI (XI (XO (XO (XI
    XH))))))))) :: []) :: (((Npos (XO (XO (XI (XI (XI (XO (XO (XI
    XH))))))))) :: []) :: (((Npos (XI (XO (XI (XI (XI (XO (XO (XI
    XH))))))))) :: []) :: (((Npos (XO (XI (XI (XI (XI (XO (XO (XI
    XH))))))))) :: []) :: (((Npos (XI (XI (XI (XI (XI (XO (XO (XI
    XH))))))))) :: []) :: (((Npos (XO (XO (XO (XO (XO (XI (XO (XI
    XH))))))))) :: []) :: (((Npos (XI (XO (XO (XO (XO (XI (XO (XI
    XH))))))))) :: []) :: (((Npos (XO (XI (XO (XO (XO (XI (XO (XI
    XH))))))))) :: []) :: (((Npos (XI (XI (XO (XO (XO (XI (XO (XI
    XH))))))))) :: []) :: (((Npos (XO (XO (XI (XO (XO (XI (XO (XI
    XH))))))))) :: []) :: (((Npos (XI (XO (XI (XO (XO (XI (XO (XI
    XH))))))))) :: []) :: (((Npos (XO (XI (XI (XO (XO (XI (XO (XI
    XH))))))))) :: []) :: (((Npos (XI (XI (XI (XO (XO (XI (XO (XI
    XH))))))))) :: []) :: (((Npos (XO (XO (XO (XI (XO (XI (XO (XI
    XH))))))))) :: []) :: (((Npos (XI (XO (XO (XI (XO (XI (XO (XI
    XH))))))))) :: []) :: (((Npos (XO (XI (XO (XI (XO (XI (XO (XI
    XH))))))))) :: []) :: (((Npos (XI (XI (XO (XI (XO (XI (XO (XI
    XH))))))))) :: []) :: (((Npos (XO (XO (XI (XI (XO (XI (XO (XI
    XH))))))))) :: []) :: (((Npos (XI (XO (XI (XI (XO (XI (XO (XI
    XH))))))))) :: []) :: (((Npos (XO (XI (XI (XI (XO (XI (XO (XI
    XH))))))))) :: []) :: (((Npos (XI (XI (XI (XI (XO (XI (XO (XI
    XH))))))))) :: []) :: (((Npos (XO (XO (XO (XO (XI (XI (XO (XI
    XH))))))))) :: []) :: (((Npos (XI (XO (XO (XO (XI (XI (XO (XI
    XH))))))))) :: []) :: (((Npos (XO (XI (XO (XO (XI (XI (XO (XI
    XH))))))))) :: []) :: (((Npos (XI (XI (XO (XO (XI (XI (XO (XI
    XH))))))))) :: []) :: (((Npos (XO (XO (XI (XO (XI (XI (XO (XI
    XH))))))))) :: []) :: (((Npos (XI (XO (XI (XO (XI (XI (XO (XI
    XH))))))))) :: []) :: (((Npos (XO (XI (XI (XO (XI (XI (XO (XI
    XH))))))))) :: []) :: (((Npos (XI (XI (XI (XO (XI (XI (XO (XI
    XH))))))))) :: []) :: (((Npos (XO (XO (XO (XI (XI (XI (XO (XI
    XH))))))))) :: []) :: (((Npos (XI (XO (XO (XI (XI (XI (XO (XI
    XH))))))))) :: []) :: (((Npos (XO (XI (XO (XI (XI (XI (XO (XI
    XH))))))))) :: []) :: (((Npos (XI (XI (XO (XI (XI (XI (XO (XI
    XH))))))))) :: []) :: (((Npos (XO (XO (XI (XI (XI (XI (XO (XI
    XH))))))))) :: []) :: (((Npos (XI (XO (XI (XI (XI (XI (XO (XI
    XH))))))))) :: []) :: (((Npos (XO (XI (XI (XI (XI (XI (XO (XI
    XH))))))))) :: []) :: (((Npos (XI (XI (XI (XI (XI (XI (XO (XI
    XH))))))))) :: []) :: (((Npos (XO (XO (XO (XO (XO (XO (XI (XI
    XH))))))))) :: []) :: (((Npos (XI (XO (XO (XO (XO (XO (XI (XI
    XH))))))))) :: []) :: (((Npos (XO (XI (XO (XO (XO (XO (XI (XI
    XH))))))))) :: []) :: (((Npos (XI (XI (XO (XO (XO (XO (XI (XI
    XH))))))))) :: []) :: (((Npos (XO (XO (XI (XO (XO (XO (XI (XI
    XH))))))))) :: []) :: (((Npos (XI (XO (XI (XO (XO (XO (XI (XI
    XH))))))))) :: []) :: (((Npos (XO (XI (XI (XO (XO (XO (XI (XI
    XH))))))))) :: []) :: (((Npos (XI (XI (XI (XO (XO (XO (XI (XI
    XH))))))))) :: []) :: (((Npos (XO (XO (XO (XI (XO (XO (XI (XI
    XH))))))))) :: []) :: (((Npos (XI (XO (XO (XI (XO (XO (XI (XI
    XH))))))))) :: []) :: (((Npos (XO (XI (XO (XI (XO (XO (XI (XI
    XH))))))))) :: []) :: (((Npos (XI (XI (XO (XI (XO (XO (XI (XI
    XH))))))))) :: []) :: (((Npos (XO (XO (XI (XI (XO (XO (XI (XI
    XH))))))))) :: []) :: (((Npos (XI (XO (XI (XI (XO (XO (XI (XI
    XH))))))))) :: []) :: (((Npos (XO (XI (XI (XI (XO (XO (XI (XI
    XH))))))))) :: []) :: (((Npos (XI (XI (XI (XI (XO (XO (XI (XI
    XH))))))))) :: []) :: (((Npos (XO (XO (XO (XO (XI (XO (XI (XI
    XH))))))))) :: []) :: (((Npos (XI (XO (XO (XO (XI (XO (XI (XI
    XH))))))))) :: []) :: (((Npos (XO (XI (XO (XO (XI (XO (XI (XI
    XH))))))))) :: []) :: (((Npos (XI (XI (XO (XO (XI (XO (XI (XI
    XH))))))))) :: []) :: (((Npos (XO (XO (XI (XO (XI (XO (XI (XI
    XH))))))))) :: []) :: (((Npos (XI (XO (XI (XO (XI (XO (XI (XI
    XH))))))))) :: []) :: (((Npos (XO (XI (XI (XO (XI (XO (XI (XI
    XH))))))))) :: []) :: (((Npos (XI (XI (XI (XO (XI (XO (XI (XI
    XH))))))))) :: []) :: (((Npos (XO (XO (XO (XI (XI (XO (XI (XI
    XH))))))))) :: []) :: (((Npos (XI (XO (XO (XI (XI (XO (XI (XI
    XH))))))))) :: []) :: (((Npos (XO (XI (XO (XI (XI (XO (XI (XI
    XH))))))))) :: []) :: (((Npos (XI (XI (XO (XI (XI (XO (XI (XI
    XH))))))))) :: []) :: (((Npos (XO (XO (XI (XI (XI (XO (XI (XI
    XH))))))))) :: []) :: (((Npos (XI (XO (XI (XI (XI (XO (XI (XI
    XH))))))))) :: []) :: (((Npos (XO (XI (XI (XI (XI (XO (XI (XI
    XH))))))))) :: []) :: (((Npos (XI (XI (XI (XI (XI (XO (XI (XI
    XH))))))))) :: []) :: (((Npos (XO (XO (XO (XO (XO (XI (XI (XI
    XH))))))))) :: []) :: (((Npos (XI (XO (XO (XO (XO (XI (XI (XI
    XH))))))))) :: []) :: (((Npos (XO (XI (XO (XO (XO (XI (XI (XI
    XH))))))))) :: []) :: (((Npos (XI (XI (XO (XO (XO (XI (XI (XI
    XH))))))))) :: []) :: (((Npos (XO (XO (XI (XO (XO (XI (XI (XI
    XH))))))))) :: []) :: (((Npos (XI (XO (XI (XO (XO (XI (XI (XI
    XH))))))))) :: []) :: (((Npos (XO (XI (XI (XO (XO (XI (XI (XI
    XH))))))))) :: []) :: (((Npos (XI (XI (XI (XO (XO (XI (XI (XI
    XH))))))))) :: []) :: (((Npos (XO (XO (XO (XI (XO (XI (XI (XI
    XH))))))))) :: []) :: (((Npos (XI (XO (XO (XI (XO (XI (XI (XI
    XH))))))))) :: []) :: (((Npos (XO (XI (XO (XI (XO (XI (XI (XI
    XH))))))))) :: []) :: (((Npos (XI (XI (XO (XI (XO (XI (XI (XI
    XH))))))))) :: []) :: (((Npos (XO (XO (XI (XI (XO (XI (XI (XI
    XH))))))))) :: []) :: (((Npos (XI (XO (XI (XI (XO (XI (XI (XI
    XH))))))))) :: []) :: (((Npos (XO (XI (XI (XI (XO (XI (XI (XI
    XH))))))))) :: []) :: (((Npos (XI (XI (XI (XI (XO (XI (XI (XI
    XH))))))))) :: []) :: (((Npos (XO (XO (XO (XO (XI (XI (XI (XI
    XH))))))))) :: []) :: (((Npos (XI (XO (XO (XO (XI (XI (XI (XI
    XH))))))))) :: []) :: (((Npos (XO (XI (XO (XO (XI (XI (XI (XI
    XH))))))))) :: []) :: (((Npos (XI (XI (XO (XO (XI (XI (XI (XI
    XH))))))))) :: []) :: (((Npos (XO (XO (XI (XO (XI (XI (XI (XI
    XH))))))))) :: []) :: (((Npos (XI (XO (XI (XO (XI (XI (XI (XI
    XH))))))))) :: []) :: (((Npos (XO (XI (XI (XO (XI (XI (XI (XI
    XH))))))))) :: []) :: (((Npos (XI (XI (XI (XO (XI (XI (XI (XI
    XH))))))))) :: []) :: (((Npos (XO (XO (XO (XI (XI (XI (XI (XI
    XH))))))))) :: []) :: (((Npos (XI (XO (XO (XI (XI (XI (XI (XI
    XH))))))))) :: []) :: (((Npos (XO (XI (XO (XI (XI (XI (XI (XI
    XH))))))))) :: []) :: (((Npos (XI (XI (XO (XI (XI (XI (XI (XI
    XH))))))))) :: []) :: (((Npos (XO (XO (XI (XI (XI (XI (XI (XI
    XH))))))))) :: []) :: (((Npos (XI (XO (XI (XI (XI (XI (XI (XI
    XH))))))))) :: []) :: (((Npos (XO (XI (XI (XI (XI (XI (XI (XI
    XH))))))))) :: []) :: (((Npos (XI (XI (XI (XI (XI (XI (XI (XI
    XH))))))))) :: []) :: (((Npos (XO (XO (XO (XO (XO (XO (XO (XO (XO
    XH)))))))))) :: []) :: (((Npos (XI (XO (XO (XO (XO (XO (XO (XO (XO
    XH)))))))))) :: []) :: (((Npos (XO (XI (XO (XO (XO (XO (XO (XO (XO
    XH)))))))))) :: []) :: (((Npos (XI (XI (XO (XO (XO (XO (XO (XO (XO
    XH)))))))))) :: []) :: (((Npos (XO (XO (XI (XO (XO (XO (XO (XO (XO
    XH)))))))))) :: []) :: (((Npos (XI (XO (XI (XO (XO (XO (XO (XO (XO
    XH)))))))))) :: []) :: (((Npos (XO (XI (XI (XO (XO (XO (XO (XO (XO
    XH)))))))))) :: []) :: (((Npos (XI (XI (XI (XO (XO (XO (XO (XO (XO
    XH)))))))))) :: []) :: (((Npos (XO (XO (XO (XI (XO (XO (XO (XO (XO
    XH)))))))))) :: []) :: (((Npos (XI (XO (XO (XI (XO (XO (XO (XO (XO
    XH)))))))))) :: []) :: (((Npos (XO (XI (XO (XI (XO (XO (XO (XO (XO
    XH)))))))))) :: []) :: (((Npos (XI (XI (XO (XI (XO (XO (XO (XO (XO
    XH)))))))))) :: []) :: (((Npos (XO (XO (XI (XI (XO (XO (XO (XO (XO
    XH)))))))))) :: []) :: (((Npos (XI (XO (XI (XI (XO (XO (XO (XO (XO
    XH)))))))))) :: []) :: (((Npos (XO (XI (XI (XI (XO (XO (XO (XO (XO
    XH)))))))))) :: []) :: (((Npos (XI (XI (XI (XI (XO (XO (XO (XO (XO
    XH)))))))))) :: []) :: (((Npos (XO (XO (XO (XO (XI (XO (XO (XO (XO
    XH)))))))))) :: []) :: (((Npos (XI (XO (XO (XO (XI (XO (XO (XO (XO
    XH)))))))))) :: []) :: (((Npos (XO (XI (XO (XO (XI (XO (XO (XO (XO
    XH)))))))))) :: []) :: (((Npos (XI (XI (XO (XO (XI (XO (XO (XO (XO
    XH)))))))))) :: []) :: (((Npos (XO (XO (XI (XO (XI (XO (XO (XO (XO
    XH)))))))))) :: []) :: (((Npos (XI (XO (XI (XO (XI (XO (XO (XO (XO
    XH)))))))))) :: []) :: (((Npos (XO (XI (XI (XO (XI (XO (XO (XO (XO
    XH)))))))))) :: []) :: (((Npos (XI (XI (XI (XO (XI (XO (XO (XO (XO
    XH)))))))))) :: []) :: (((Npos (XO (XO (XO (XI (XI (XO (XO (XO (XO
    XH)))))))))) :: []) :: (((Npos (XI (XO (XO (XI (XI (XO (XO (XO (XO
    XH)))))))))) :: []) :: (((Npos (XO (XI (XO (XI (XI (XO (XO (XO (XO
    XH)))))))))) :: []) :: (((Npos (XI (XI (XO (XI (XI (XO (XO (XO (XO
    XH)))))))))) :: []) :: (((Npos (XO (XO (XI (XI (XI (XO (XO (XO (XO
    XH)))))))))) :: []) :: (((Npos (XI (XO (XI (XI (XI (XO (XO (XO (XO
    XH)))))))))) :: []) :: (((Npos (XO (XI (XI (XI (XI (XO (XO (XO (XO
    XH)))))))))) :: []) :: (((Npos (XI (XI (XI (XI (XI (XO (XO (XO (XO
    XH)))))))))) :: []) :: (((Npos (XO (XO (XO (XO (XO (XI (XO (XO (XO
    XH)))))))))) :: []) :: (((Npos (XI (XO (XO (XO (XO (XI (XO (XO (XO
    XH)))))))))) :: []) :: (((Npos (XO (XI (XO (XO (XO (XI (XO (XO (XO
    XH)))))))))) :: []) :: (((Npos (XI (XI (XO (XO (XO (XI (XO (XO (XO
    XH)))))))))) :: []) :: (((Npos (XO (XO (XI (XO (XO (XI (XO (XO (XO
    XH)))))))))) :: []) :: (((Npos (XI (XO (XI (XO (XO (XI (XO (XO (XO
    XH)))))))))) :: []) :: (((Npos (XO (XI (XI (XO (XO (XI (XO (XO (XO
    XH)))))))))) :: []) :: (((Npos (XI (XI (XI (XO (XO (XI (XO (XO (XO
    XH)))))))))) :: []) :: (((Npos (XO (XO (XO (XI (XO (XI (XO (XO (XO
    XH)))))))))) :: []) :: (((Npos (XI (XO (XO (XI (XO (XI (XO (XO (XO
    XH)))))))))) :: []) :: (((Npos (XO (XI (XO (XI (XO (XI (XO (XO (XO
    XH)))))))))) :: []) :: (((Npos (XI (XI (XO (XI (XO (XI (XO (XO (XO
    XH)))))))))) :: []) :: (((Npos (XO (XO (XI (XI (XO (XI (XO (XO (XO
    XH)))))))))) :: []) :: (((Npos (XI (XO (XI (XI (XO (XI (XO (XO (XO
    XH)))))))))) :: []) :: (((Npos (XO (XI (XI (XI (XO (XI (XO (XO (XO
    XH)))))))))) :: []) :: (((Npos (XI (XI (XI (XI (XO (XI (XO (XO (XO
    XH)))))))))) :: []) :: (((Npos (XO (XO (XO (XO (XI (XI (XO (XO (XO
    XH)))))))))) :: []) :: (((Npos (XI (XO (XO (XO (XI (XI (XO (XO (XO
    XH)))))))))) :: []) :: (((Npos (XO (XI (XO (XO (XI (XI (XO (XO (XO
    XH)))))))))) :: []) :: (((Npos (XI (XI (XO (XO (XI (XI (XO (XO (XO
    XH)))))))))) :: []) :: (((Npos (XO (XO (XI (XO (XI (XI (XO (XO (XO
    XH)))))))))) :: []) :: (((Npos (XI (XO (XI (XO (XI (XI (XO (XO (XO
    XH)))))))))) :: []) :: (((Npos (XO (XI (XI (XO (XI (XI (XO (XO (XO
    XH)))))))))) :: []) :: (((Npos (XI (XI (XI (XO (XI (XI (XO (XO (XO
    XH)))))))))) :: []) :: (((Npos (XO (XO (XO (XI (XI (XI (XO (XO (XO
    XH)))))))))) :: []) :: (((Npos (XI (XO (XO (XI (XI (XI (XO (XO (XO
    XH)))))))))) :: []) :: (((Npos (XO (XI (XO (XI (XI (XI (XO (XO (XO
    XH)))))))))) :: []) :: (((Npos (XI (XI (XO (XI (XI (XI (XO (XO (XO
    XH)))))))))) :: []) :: (((Npos (XO (XO (XI (XI (XI (XI (XO (XO (XO
    XH)))))))))) :: []) :: (((Npos (XI (XO (XI (XI (XI (XI (XO (XO (XO
    XH)))))))))) :: []) :: (((Npos (XO (XI (XI (XI (XI (XI (XO (XO (XO
    XH)))))))))) :: []) :: (((Npos (XI (XI (XI (XI (XI (XI (XO (XO (XO
    XH)))))))))) :: []) :: (((Npos (XO (XO (XO (XO (XO (XO (XI (XO (XO
    XH)))))))))) :: []) :: (((Npos (XI (XO (XO (XO (XO (XO (XI (XO (XO
    XH)))))))))) :: []) :: (((Npos (XO (XI (XO (XO (XO (XO (XI (XO (XO
    XH)))))))))) :: []) :: (((Npos (XI (XI (XO (XO (XO (XO (XI (XO (XO
    XH)))))))))) :: []) :: (((Npos (XO (XO (XI (XO (XO (XO (XI (XO (XO
    XH)))))))))) :: []) :: (((Npos (XI (XO (XI (XO (XO (XO (XI (XO (XO
    XH)))))))))) :: []) :: (((Npos (XO (XI (XI (XO (XO (XO (XI (XO (XO
    XH)))))))))) :: []) :: (((Npos (XI (XI (XI (XO (XO (XO (XI (XO (XO
    XH)))))))))) :: []) :: (((Npos (XO (XO (XO (XI (XO (XO (XI (XO (XO
    XH)))))))))) :: []) :: (((Npos (XI (XO (XO (XI (XO (XO (XI (XO (XO
    XH)))))))))) :: []) :: (((Npos (XO (XI (XO (XI (XO (XO (XI (XO (XO
    XH)))))))))) :: []) :: (((Npos (XI (XI (XO (XI (XO (XO (XI (XO (XO
    XH)))))))))) :: []) :: (((Npos (XO (XO (XI (XI (XO (XO (XI (XO (XO
    XH)))))))))) :: []) :: (((Npos (XI (XO (XI (XI (XO (XO (XI (XO (XO
    XH)))))))))) :: []) :: (((Npos (XO (XI (XI (XI (XO (XO (XI (XO (XO
    XH)))))))))) :: []) :: (((Npos (XI (XI (XI (XI (XO (XO (XI (XO (XO
    XH)))))))))) :: []) :: (((Npos (XO (XO (XO (XO (XI (XO (XI (XO (XO
    XH)))))))))) :: []) :: (((Npos (XI (XO (XO (XO (XI (XO (XI (XO (XO
    XH)))))))))) :: []) :: (((Npos (XO (XI (XO (XO (XI (XO (XI (XO (XO
    XH)))))))))) :: []) :: (((Npos (XI (XI (XO (XO (XI (XO (XI (XO (XO
    XH)))))))))) :: []) :: (((Npos (XO (XO (XI (XO (XI (XO (XI (XO (XO
    XH)))))))))) :: []) :: (((Npos (XI (XO (XI (XO (XI (XO (XI (XO (XO
    XH)))))))))) :: []) :: (((Npos (XO (XI (XI (XO (XI (XO (XI (XO (XO
    XH)))))))))) :: []) :: (((Npos (XI (XI (XI (XO (XI (XO (XI (XO (XO
    XH)))))))))) :: []) :: (((Npos (XO (XO (XO (XI (XI (XO (XI (XO (XO
    XH)))))))))) :: []) :: (((Npos (XI (XO (XO (XI (XI (XO (XI (XO (XO
    XH)))))))))) :: []) :: (((Npos (XO (XI (XO (XI (XI (XO (XI (XO (XO
    XH)))))))))) :: []) :: (((Npos (XI (XI (XO (XI (XI (XO (XI (XO (XO
    XH)))))))))) :: []) :: (((Npos (XO (XO (XI (XI (XI (XO (XI (XO (XO
    XH)))))))))) :: []) :: (((Npos (XI (XO (XI (XI (XI (XO (XI (XO (XO
    XH)))))))))) :: []) :: (((Npos (XO (XI (XI (XI (XI (XO (XI (XO (XO
    XH)))))))))) :: []) :: (((Npos (XI (XI (XI (XI (XI (XO (XI (XO (XO
    XH)))))))))) :: []) :: (((Npos (XO (XO (XO (XO (XO (XI (XI (XO (XO
    XH)))))))))) :: []) :: (((Npos (XI (XO (XO (XO (XO (XI (XI (XO (XO
    XH)))))))))) :: []) :: (((Npos (XO (XI (XO (XO (XO (XI (XI (XO (XO
    XH)))))))))) :: []) :: (((Npos (XI (XI (XO (XO (XO (XI (XI (XO (XO
    XH)))))))))) :: []) :: (((Npos (XO (XO (XI (XO (XO (XI (XI (XO (XO
    XH)))))))))) :: []) :: (((Npos (XI (XO (XI (XO (XO (XI (XI (XO (XO
    XH)))))))))) :: []) :: (((Npos (XO (XI (XI (XO (XO (XI (XI (XO (XO
    XH)))))))))) :: []) :: (((Npos (XI (XI (XI (XO (XO (XI (XI (XO (XO
    XH)))))))))) :: []) :: (((Npos (XO (XO (XO (XI (XO (XI (XI (XO (XO
    XH)))))))))) :: []) :: (((Npos (XI (XO (XO (XI (XO (XI (XI (XO (XO
    XH)))))))))) :: []) :: (((Npos (XO (XI (XO (XI (XO (XI (XI (XO (XO
    XH)))))))))) :: []) :: (((Npos (XI (XI (XO (XI (XO (XI (XI (XO (XO
    XH)))))))))) :: []) :: (((Npos (XO (XO (XI (XI (XO (XI (XI (XO (XO
    XH)))))))))) :: []) :: (((Npos (XI (XO (XI (XI (XO (XI (XI (XO (XO
    XH)))))))))) :: []) :: (((Npos (XO (XI (XI (XI (XO (XI (XI (XO (XO
    XH)))))))))) :: []) :: (((Npos (XI (XI (XI (XI (XO (XI (XI (XO (XO
    XH)))))))))) :: []) :: (((Npos (XO (XO (XO (XO (XI (XI (XI (XO (XO
    XH)))))))))) :: []) :: (((Npos (XI (XO (XO (XO (XI (XI (XI (XO (XO
    XH)))))))))) :: []) :: (((Npos (XO (XI (XO (XO (XI (XI (XI (XO (XO
    XH)))))))))) :: []) :: (((Npos (XI (XI (XO (XO (XI (XI (XI (XO (XO
    XH)))))))))) :: []) :: (((Npos (XO (XO (XI (XO (XI (XI (XI (XO (XO
    XH)))))))))) :: []) :: (((Npos (XI (XO (XI (XO (XI (XI (XI (XO (XO
    XH)))))))))) :: []) :: (((Npos (XO (XI (XI (XO (XI (XI (XI (XO (XO
    XH)))))))))) :: []) :: (((Npos (XI (XI (XI (XO (XI (XI (XI (XO (XO
    XH)))))))))) :: []) :: (((Npos (XO (XO (XO (XI (XI (XI (XI (XO (XO
    XH)))))))))) :: []) :: (((Npos (XI (XO (XO (XI (XI (XI (XI (XO (XO
    XH)))))))))) :: []) :: (((Npos (XO (XI (XO (XI (XI (XI (XI (XO (XO
    XH)))))))))) :: []) :: (((Npos (XI (XI (XO (XI (XI (XI (XI (XO (XO
    XH)))))))))) :: []) :: (((Npos (XO (XO (XI (XI (XI (XI (XI (XO (XO
    XH)))))))))) :: []) :: (((Npos (XI (XO (XI (XI (XI (XI (XI (XO (XO
    XH)))))))))) :: []) :: (((Npos (XO (XI (XI (XI (XI (XI (XI (XO (XO
    XH)))))))))) :: []) :: (((Npos (XI (XI (XI (XI (XI (XI (XI (XO (XO
    XH)))))))))) :: []) :: (((Npos (XO (XO (XO (XO (XO (XO (XO (XI (XO
    XH)))))))))) :: []) :: (((Npos (XI (XO (XO (XO (XO (XO (XO (XI (XO
    XH)))))))))) :: []) :: (((Npos (XO (XI (XO (XO (XO (XO (XO (XI (XO
    XH)))))))))) :: []) :: (((Npos (XI (XI (XO (XO (XO (XO (XO (XI (XO
    XH)))))))))) :: []) :: (((Npos (XO (XO (XI (XO (XO (XO (XO (XI (XO
    XH)))))))))) :: []) :: (((Npos (XI (XO (XI (XO (XO (XO (XO (XI (XO
    XH)))))))))) :: []) :: (((Npos (XO (XI (XI (XO (XO (XO (XO (XI (XO
    XH)))))))))) :: []) :: (((Npos (XI (XI (XI (XO (XO (XO (XO (XI (XO
    XH)))))))))) :: []) :: (((Npos (XO (XO (XO (XI (XO (XO (XO (XI (XO
    XH)))))))))) :: []) :: (((Npos (XI (XO (XO (XI (XO (XO (XO (XI (XO
    XH)))))))))) :: []) :: (((Npos (XO (XI (XO (XI (XO (XO (XO (XI (XO
    XH)))))))))) :: []) :: (((Npos (XI (XI (XO (XI (XO (XO (XO (XI (XO
    XH)))))))))) :: []) :: (((Npos (XO (XO (XI (XI (XO (XO (XO (XI (XO
    XH)))))))))) :: []) :: (((Npos (XI (XO (XI (XI (XO (XO (XO (XI (XO
    XH)))))))))) :: []) :: (((Npos (XO (XI (XI (XI (XO (XO (XO (XI (XO
    XH)))))))))) :: []) :: (((Npos (XI (XI (XI (XI (XO (XO (XO (XI (XO
    XH)))))))))) :: []) :: (((Npos (XO (XO (XO (XO (XI (XO (XO (XI (XO
    XH)))))))))) :: []) :: (((Npos (XI (XO (XO (XO (XI (XO (XO (XI (XO
    XH)))))))))) :: []) :: (((Npos (XO (XI (XO (XO (XI (XO (XO (XI (XO
    XH)))))))))) :: []) :: (((Npos (XI (XI (XO (XO (XI (XO (XO (XI (XO
    XH)))))))))) :: []) :: (((Npos (XO (XO (XI (XO (XI (XO (XO (XI (XO
    XH)))))))))) :: []) :: (((Npos (XI (XO (XI (XO (XI (XO (XO (XI (XO
    XH)))))))))) :: []) :: (((Npos (XO (XI (XI (XO (XI (XO (XO (XI (XO
    XH)))))))))) :: []) :: (((Npos (XI (XI (XI (XO (XI (XO (XO (XI (XO
    XH)))))))))) :: []) :: (((Npos (XO (XO (XO (XI (XI (XO (XO (XI (XO
    XH)))))))))) :: []) :: (((Npos (XI (XO (XO (XI (XI (XO (XO (XI (XO
    XH)))))))))) :: []) :: (((Npos (XO (XI (XO (XI (XI (XO (XO (XI (XO
    XH)))))))))) :: []) :: (((Npos (XI (XI (XO (XI (XI (XO (XO (XI (XO
    XH)))))))))) :: []) :: (((Npos (XO (XO (XI (XI (XI (XO (XO (XI (XO
    XH)))))))))) :: []) :: (((Npos (XI (XO (XI (XI (XI (XO (XO (XI (XO
    XH)))))))))) :: []) :: (((Npos (XO (XI (XI (XI (XI (XO (XO (XI (XO
    XH)))))))))) :: []) :: (((Npos (XI (XI (XI (XI (XI (XO (XO (XI (XO
    XH)))))))))) :: []) :: (((Npos (XO (XO (XO (XO (XO (XI (XO (XI (XO
    XH)))))))))) :: []) :: (((Npos (XI (XO (XO (XO (XO (XI (XO (XI (XO
    XH)))))))))) :: []) :: (((Npos (XO (XI (XO (XO (XO (XI (XO (XI (XO
    XH)))))))))) :: []) :: (((Npos (XI (XI (XO (XO (XO (XI (XO (XI (XO
    XH)))))))))) :: []) :: (((Npos (XO (XO (XI (XO (XO (XI (XO (XI (XO
    XH)))))))))) :: []) :: (((Npos (XI (XO (XI (XO (XO (XI (XO (XI (XO
    XH)))))))))) :: []) :: (((Npos (XO (XI (XI (XO (XO (XI (XO (XI (XO
    XH)))))))))) :: []) :: (((Npos (XI (XI (XI (XO (XO (XI (XO (XI (XO
    XH)))))))))) :: []) :: (((Npos (XO (XO (XO (XI (XO (XI (XO (XI (XO
    XH)))))))))) :: []) :: (((Npos (XI (XO (XO (XI (XO (XI (XO (XI (XO
    XH)))))))))) :: []) :: (((Npos (XO (XI (XO (XI (XO (XI (XO (XI (XO
    XH)))))))))) :: []) :: (((Npos (XI (XI (XO (XI (XO (XI (XO (XI (XO
    XH)))))))))) :: []) :: (((Npos (XO (XO (XI (XI (XO (XI (XO (XI (XO
    XH)))))))))) :: []) :: (((Npos (XI (XO (XI (XI (XO (XI (XO (XI (XO
    XH)))))))))) :: []) :: (((Npos (XO (XI (XI (XI (XO (XI (XO (XI (XO
    XH)))))))))) :: []) :: (((Npos (XI (XI (XI (XI (XO (XI (XO (XI (XO
    XH)))))))))) :: []) :: (((Npos (XO (XO (XO (XO (XI (XI (XO (XI (XO
    XH)))))))))) :: []) :: (((Npos (XI (XO (XO (XO (XI (XI (XO (XI (XO
    XH)))))))))) :: []) :: (((Npos (XO (XI (XO (XO (XI (XI (XO (XI (XO
    XH)))))))))) :: []) :: (((Npos (XI (XI (XO (XO (XI (XI (XO (XI (XO
    XH)))))))))) :: []) :: (((Npos (XO (XO (XI (XO (XI (XI (XO (XI (XO
    XH)))))))))) :: []) :: (((Npos (XI (XO (XI (XO (XI (XI (XO (XI (XO
    XH)))))))))) :: []) :: (((Npos (XO (XI (XI (XO (XI (XI (XO (XI (XO
    XH)))))))))) :: []) :: (((Npos (XI (XI (XI (XO (XI (XI (XO (XI (XO
    XH)))))))))) :: []) :: (((Npos (XO (XO (XO (XI (XI (XI (XO (XI (XO
    XH)))))))))) :: []) :: (((Npos (XI (XO (XO (XI (XI (XI (XO (XI (XO
    XH)))))))))) :: []) :: (((Npos (XO (XI (XO (XI (XI (XI (XO (XI (XO
    XH)))))))))) :: []) :: (((Npos (XI (XI (XO (XI (XI (XI (XO (XI (XO
    XH)))))))))) :: []) :: (((Npos (XO (XO (XI (XI (XI (XI (XO (XI (XO
    XH)))))))))) :: []) :: (((Npos (XI (XO (XI (XI (XI (XI (XO (XI (XO
    XH)))))))))) :: []) :: (((Npos (XO (XI (XI (XI (XI (XI (XO (XI (XO
    XH)))))))))) :: []) :: (((Npos (XI (XI (XI (XI (XI (XI (XO (XI (XO
    XH)))))))))) :: []) :: (((Npos (XO (XO (XO (XO (XO (XO (XI (XI (XO
    XH)))))))))) :: []) :: (((Npos (XI (XO (XO (XO (XO (XO (XI (XI (XO
    XH)))))))))) :: []) :: (((Npos (XO (XI (XO (XO (XO (XO (XI (XI (XO
    XH)))))))))) :: []) :: (((Npos (XI (XI (XO (XO (XO (XO (XI (XI (XO
    XH)))))))))) :: []) :: (((Npos (XO (XO (XI (XO (XO (XO (XI (XI (XO
    XH)))))))))) :: []) :: (((Npos (XI (XO (XI (XO (XO (XO (XI (XI (XO
    XH)))))))))) :: []) :: (((Npos (XO (XI (XI (XO (XO (XO (XI (XI (XO
    XH)))))))))) :: []) :: (((Npos (XI (XI (XI (XO (XO (XO (XI (XI (XO
    XH)))))))))) :: []) :: (((Npos (XO (XO (XO (XI (XO (XO (XI (XI (XO
    XH)))))))))) :: []) :: (((Npos (XI (XO (XO (XI (XO (XO (XI (XI (XO
    XH)))))))))) :: []) :: (((Npos (XO (XI (XO (XI (XO (XO (XI (XI (XO
    XH)))))))))) :: []) :: (((Npos (XI (XI (XO (XI (XO (XO (XI (XI (XO
    XH)))))))))) :: []) :: (((Npos (XO (XO (XI (XI (XO (XO (XI (XI (XO
    XH)))))))))) :: []) :: (((Npos (XI (XO (XI (XI (XO (XO (XI (XI (XO
    XH)))))))))) :: []) :: (((Npos (XO (XI (XI (XI (XO (XO (XI (XI (XO
    XH)))))))))) :: []) :: (((Npos (XI (XI (XI (XI (XO (XO (XI (XI (XO
    XH)))))))))) :: []) :: (((Npos (XO (XO (XO (XO (XI (XO (XI (XI (XO
    XH)))))))))) :: []) :: (((Npos (XI (XO (XO (XO (XI (XO (XI (XI (XO
    XH)))))))))) :: []) :: (((Npos (XO (XI (XO (XO (XI (XO (XI (XI (XO
    XH)))))))))) :: []) :: (((Npos (XI (XI (XO (XO (XI (XO (XI (XI (XO
    XH)))))))))) :: []) :: (((Npos (XO (XO (XI (XO (XI (XO (XI (XI (XO
    XH)))))))))) :: []) :: (((Npos (XI (XO (XI (XO (XI (XO (XI (XI (XO
    XH)))))))))) :: []) :: (((Npos (XO (XI (XI (XO (XI (XO (XI (XI (XO
    XH)))))))))) :: []) :: (((Npos (XI (XI (XI (XO (XI (XO (XI (XI (XO
    XH)))))))))) :: []) :: (((Npos (XO (XO (XO (XI (XI (XO (XI (XI (XO
    XH)))))))))) :: []) :: (((Npos (XI (XO (XO (XI (XI (XO (XI (XI (XO
    XH)))))))))) :: []) :: (((Npos (XO (XI (XO (XI (XI (XO (XI (XI (XO
    XH)))))))))) :: []) :: (((Npos (XI (XI (XO (XI (XI (XO (XI (XI (XO
    XH)))))))))) :: []) :: (((Npos (XO (XO (XI (XI (XI (XO (XI (XI (XO
    XH)))))))))) :: []) :: (((Npos (XI (XO (XI (XI (XI (XO (XI (XI (XO
    XH)))))))))) :: []) :: (((Npos (XO (XI (XI (XI (XI (XO (XI (XI (XO
    XH)))))))))) :: []) :: (((Npos (XI (XI (XI (XI (XI (XO (XI (XI (XO
    XH)))))))))) :: []) :: (((Npos (XO (XO (XO (XO (XO (XI (XI (XI (XO
    XH)))))))))) :: []) :: (((Npos (XI (XO (XO (XO (XO (XI (XI (XI (XO
    XH)))))))))) :: []) :: (((Npos (XO (XI (XO (XO (XO (XI (XI (XI (XO
    XH)))))))))) :: []) :: (((Npos (XI (XI (XO (XO (XO (XI (XI (XI (XO
    XH)))))))))) :: []) :: (((Npos (XO (XO (XI (XO (XO (XI (XI (XI (XO
    XH)))))))))) :: []) :: (((Npos (XI (XO (XI (XO (XO (XI (XI (XI (XO
    XH)))))))))) :: []) :: (((Npos (XO (XI (XI (XO (XO (XI (XI (XI (XO
    XH)))))))))) :: []) :: (((Npos (XI (XI (XI (XO (XO (XI (XI (XI (XO
    XH)))))))))) :: []) :: (((Npos (XO (XO (XO (XI (XO (XI (XI (XI (XO
    XH)))))))))) :: []) :: (((Npos (XI (XO (XO (XI (XO (XI (XI (XI (XO
    XH)))))))))) :: []) :: (((Npos (XO (XI (XO (XI (XO (XI (XI (XI (XO
    XH)))))))))) :: []) :: (((Npos (XI (XI (XO (XI (XO (XI (XI (XI (XO
    XH)))))))))) :: []) :: (((Npos (XO (XO (XI (XI (XO (XI (XI (XI (XO
    XH)))))))))) :: []) :: (((Npos (XI (XO (XI (XI (XO (XI (XI (XI (XO
    XH)))))))))) :: []) :: (((Npos (XO (XI (XI (XI (XO (XI (XI (XI (XO
    XH)))))))))) :: []) :: (((Npos (XI (XI (XI (XI (XO (XI (XI (XI (XO
    XH)))))))))) :: []) :: (((Npos (XO (XO (XO (XO (XI (XI (XI (XI (XO
    XH)))))))))) :: []) :: (((Npos (XI (XO (XO (XO (XI (XI (XI (XI (XO
    XH)))))))))) :: []) :: (((Npos (XO (XI (XO (XO (XI (XI (XI (XI (XO
    XH)))))))))) :: []) :: (((Npos (XI (XI (XO (XO (XI (XI (XI (XI (XO
    XH)))))))))) :: []) :: (((Npos (XO (XO (XI (XO (XI (XI (XI (XI (XO
    XH)))))))))) :: []) :: (((Npos (XI (XO (XI (XO (XI (XI (XI (XI (XO
    XH)))))))))) :: []) :: (((Npos (XO (XI (XI (XO (XI (XI (XI (XI (XO
    XH)))))))))) :: []) :: (((Npos (XI (XI (XI (XO (XI (XI (XI (XI (XO
    XH)))))))))) :: []) :: (((Npos (XO (XO (XO (XI (XI (XI (XI (XI (XO
    XH)))))))))) :: []) :: (((Npos (XI (XO (XO (XI (XI (XI (XI (XI (XO
    XH)))))))))) :: []) :: (((Npos (XO (XI (XO (XI (XI (XI (XI (XI (XO
    XH)))))))))) :: []) :: (((Npos (XI (XI (XO (XI (XI (XI (XI (XI (XO
    XH)))))))))) :: []) :: (((Npos (XO (XO (XI (XI (XI (XI (XI (XI (XO
    XH)))))))))) :: []) :: (((Npos (XI (XO (XI (XI (XI (XI (XI (XI (XO
    XH)))))))))) :: []) :: (((Npos (XO (XI (XI (XI (XI (XI (XI (XI (XO
    XH)))))))))) :: []) :: (((Npos (XI (XI (XI (XI (XI (XI (XI (XI (XO
    XH)))))))))) :: []) :: [])))))))))))))))))))))))))))))))))))))))))))))))))))))))))))))))))))))))))))))))))))))))))))))))))))))))))))))))))))))))))))))))))))))))))))))))))))))))))))))))))))))))))))))))))))))))))))))))))))))))))))))))))))))))))))))))))))))))))))))))))))))))))))))))))))))))))))))))))))))))))))))))))))))))))))))))))))))))))))))))))))))))))))))))))))))))))))))))))))))))))))))))))))))))))))))))))))))))))))))))))))))))))))))))))))))))))))))))))))))))))))))))))))))))))))))))))))))))))))))))))))))))))))))))))))))))))))))))))))))))))))))))))))))))))))))))))))))))))))))))))))))))))))))))))))))))))))))))))))))))))))))))))))))))))))))))))))))))))))))))))))))))))))))))))))))))))))))))))))))))))))))))))))))))))))))))))))))))))))))))))))))))))))))))))))))))))))))))))))))))))))))))

type text = n list

(** val s2t : char list -> text **)

let s2t s =
  map n_of_ascii (list_ascii_of_string s)

type tok =
| TName of ident
| TLit of const * text
| TP of char list
| TFText of text

(** val tok_text : tok -> text **)

let tok_text = function
| TName s -> s2t s
| TLit (_, t0) -> t0
| TP s -> s2t s
| TFText t0 -> t0

(** val render : tok list -> text **)

let render ts =
  flat_map tok_text ts

(** val iNF : nat **)

let iNF =
  mul (S (S (S (S (S (S (S (S (S (S (S (S (S (S (S (S (S (S (S (S (S (S (S (S
    (S (S (S (S (S (S (S (S (S (S (S (S (S (S (S (S (S (S (S (S (S (S (S (S
    (S (S (S (S (S (S (S (S (S (S (S (S (S (S (S (S (S (S (S (S (S (S (S (S
    (S (S (S (S (S (S (S (S (S (S (S (S (S (S (S (S (S (S (S (S (S (S (S (S
    (S (S (S (S (S (S (S (S (S (S (S (S (S (S (S (S (S (S (S (S (S (S (S (S
    (S (S (S (S (S (S (S (S (S (S (S (S (S (S (S (S (S (S (S (S (S (S (S (S
    (S (S (S (S (S (S (S (S (S (S (S (S (S (S (S (S (S (S (S (S (S (S (S (S
    (S (S (S (S (S (S (S (S (S (S (S (S (S (S (S (S (S (S (S (S (S (S (S (S
    (S (S (S (S (S (S (S (S (S (S (S (S (S (S (S (S (S (S (S (S (S (S (S (S
    (S (S (S (S (S (S (S (S (S (S (S (S (S (S (S (S (S (S (S (S (S (S (S (S
    (S (S (S (S (S (S (S (S (S (S (S (S (S (S (S (S
    O))))))))))))))))))))))))))))))))))))))))))))))))))))))))))))))))))))))))))))))))))))))))))))))))))))))))))))))))))))))))))))))))))))))))))))))))))))))))))))))))))))))))))))))))))))))))))))))))))))))))))))))))))))))))))))))))))))))))))))))))))))))))))))))))
    (S (S (S (S (S (S (S (S (S (S (S (S (S (S (S (S (S (S (S (S (S (S (S (S
    (S (S (S (S (S (S (S (S (S (S (S (S (S (S (S (S (S (S (S (S (S (S (S (S
    (S (S (S (S (S (S (S (S (S (S (S (S (S (S (S (S (S (S (S (S (S (S (S (S
    (S (S (S (S (S (S (S (S (S (S (S (S (S (S (S (S (S (S (S (S (S (S (S (S
    (S (S (S (S (S (S (S (S (S (S (S (S (S (S (S (S (S (S (S (S (S (S (S (S
    (S (S (S (S (S (S (S (S (S (S (S (S (S (S (S (S (S (S (S (S (S (S (S (S
    (S (S (S (S (S (S (S (S (S (S (S (S (S (S (S (S (S (S (S (S (S (S (S (S
    (S (S (S (S (S (S (S (S (S (S (S (S (S (S (S (S (S (S (S (S (S (S (S (S
    (S (S (S (S (S (S (S (S (S (S (S (S (S (S (S (S (S (S (S (S (S (S (S (S
    (S (S (S (S (S (S (S (S (S (S (S (S (S (S (S (S (S (S (S (S (S (S (S (S
    (S (S (S (S (S (S (S (S (S (S (S (S (S (S (S (S
    O))))))))))))))))))))))))))))))))))))))))))))))))))))))))))))))))))))))))))))))))))))))))))))))))))))))))))))))))))))))))))))))))))))))))))))))))))))))))))))))))))))))))))))))))))))))))))))))))))))))))))))))))))))))))))))))))))))))))))))))))))))))))))))))))

(** val sQ : n **)

let sQ =
  Npos (XI (XI (XI (XO (XO XH)))))

(** val dQ : n **)

let dQ =
  Npos (XO (XI (XO (XO (XO XH)))))

(** val flipq : n -> n **)

let flipq q =
  if N.eqb q sQ then dQ else sQ

(** val escape_cp : n -> n -> text **)

let escape_cp q c =
  match nth_error (if N.eqb q sQ then escape_table_sq else escape_table_dq)
          (N.to_nat c) with
  | Some t -> t
  | None -> c :: []

(** val escape : n -> text -> text **)

let escape q s =
  flat_map (escape_cp q) s

(** val lBRACE : n **)

let lBRACE =
  Npos (XI (XI (XO (XI (XI (XI XH))))))

(** val rBRACE : n **)

let rBRACE =
  Npos (XI (XO (XI (XI (XI (XI XH))))))

(** val double_braces : text -> text **)

let double_braces t =
  flat_map (fun c ->
    if N.eqb c lBRACE
    then lBRACE :: (lBRACE :: [])
    else if N.eqb c rBRACE then rBRACE :: (rBRACE :: []) else c :: []) t

(** val const_text : n -> const -> text **)

let const_text q = function
| CNone -> s2t ('N'::('o'::('n'::('e'::[]))))
| CTrue -> s2t ('T'::('r'::('u'::('e'::[]))))
| CFalse -> s2t ('F'::('a'::('l'::('s'::('e'::[])))))
| CEllipsis -> s2t ('.'::('.'::('.'::[])))
| CInt z0 -> s2t (z2s z0)
| CFloat r -> r
| CComplex r -> r
| CStr s -> q :: (app (escape q s) (q :: []))
| CBytes r -> r

(** val is_digit : n -> bool **)

let is_digit c =
  (&&) (N.leb (Npos (XO (XO (XO (XO (XI XH)))))) c)
    (N.leb c (Npos (XI (XO (XO (XI (XI XH)))))))

(** val all_digits : text -> bool **)

let all_digits t = match t with
| [] -> false
| _ :: _ -> forallb is_digit t

(** val node_prec : expr -> nat **)

let node_prec = function
| Name _ -> node_prec_Name
| Constant _ -> node_prec_Constant
| JoinedStr _ -> node_prec_JoinedStr
| FormattedValue (_, _, _) -> node_prec_FormattedValue
| Starred _ -> node_prec_Starred
| BinOp (_, o, _) -> binop_prec o
| BoolOp (o, _) -> boolop_prec o
| UnaryOp (o, _) -> unop_prec o
| EList _ -> node_prec_List
| ETuple _ -> node_prec_Tuple
| ESet _ -> node_prec_Set
| EDict (_, _) -> node_prec_Dict
| Compare (_, _, _) -> node_prec_Compare
| Attribute (_, _) -> node_prec_Attribute
| Subscript (_, _) -> node_prec_Subscript
| Slice (_, _, _) -> node_prec_Slice
| Call (_, _, _) -> node_prec_Call
| NamedExpr (_, _) -> node_prec_NamedExpr
| Lambda (_, _, _, _, _, _, _, _) -> node_prec_Lambda
| ListComp (_, _) -> node_prec_ListComp
| SetComp (_, _) -> node_prec_SetComp
| GeneratorExp (_, _) -> node_prec_GeneratorExp
| DictComp (_, _, _) -> node_prec_DictComp
| IfExp (_, _, _) -> node_prec_IfExp
| Yield _ -> node_prec_Yield
| YieldFrom _ -> node_prec_YieldFrom
| Await _ -> node_prec_Await
| Other _ -> iNF

(** val join : 'a1 list -> 'a1 list list -> 'a1 list **)

let rec join sep = function
| [] -> []
| x :: r -> (match r with
             | [] -> x
             | _ :: _ -> app x (app sep (join sep r)))

(** val paren : bool -> tok list -> tok list **)

let paren b ts =
  if b then (TP ('('::[])) :: (app ts ((TP (')'::[])) :: [])) else ts

(** val attach_defaults : tok list list -> tok list list -> tok list list **)

let rec attach_defaults names ds =
  match names with
  | [] -> []
  | n0 :: r ->
    if Nat.leb (length ds) (length r)
    then n0 :: (attach_defaults r ds)
    else (match ds with
          | [] -> n0 :: (attach_defaults r [])
          | d :: ds' ->
            (app n0 ((TP ('='::[])) :: d)) :: (attach_defaults r ds'))

(** val attach_kwdefaults :
    tok list list -> tok list option list -> tok list list **)

let rec attach_kwdefaults names ds =
  match names with
  | [] -> (match ds with
           | [] -> names
           | _ :: _ -> [])
  | n0 :: r ->
    (match ds with
     | [] -> names
     | o :: ds' ->
       (match o with
        | Some d ->
          (app n0 ((TP ('='::[])) :: d)) :: (attach_kwdefaults r ds')
        | None -> n0 :: (attach_kwdefaults r ds')))

(** val starts_with : n -> text -> bool **)

let starts_with c = function
| [] -> false
| x :: _ -> N.eqb x c

(** val ends_with : n -> text -> bool **)

let ends_with c t =
  starts_with c (rev0 t)

(** val utoks : nat -> n -> expr -> tok list **)

let rec utoks slot q e =
  let sub = fun s x -> utoks s q x in
  let comps = fun gs ->
    join ((TP (' '::[])) :: [])
      (map (fun g ->
        let (y, a) = g in
        let (y0, ifs) = y in
        let (t, i) = y0 in
        app
          (if a
           then (TP ('a'::('s'::('y'::('n'::('c'::(' '::[]))))))) :: []
           else []) ((TP
          ('f'::('o'::('r'::(' '::[]))))) :: (app (sub slot_comp_target t)
                                               ((TP
                                               (' '::('i'::('n'::(' '::[]))))) :: 
                                               (app (sub slot_comp_iter i)
                                                 (flat_map (fun f -> (TP
                                                   (' '::('i'::('f'::(' '::[]))))) :: 
                                                   (sub slot_comp_if f)) ifs))))))
        gs)
  in
  let fbody = fun sl qq vs ->
    flat_map (fun v ->
      match v with
      | Name _ -> []
      | Constant c ->
        (match c with
         | CNone -> []
         | CTrue -> []
         | CFalse -> []
         | CEllipsis -> []
         | CInt _ -> []
         | CFloat _ -> []
         | CComplex _ -> []
         | CStr s -> (TFText (double_braces (escape qq s))) :: []
         | CBytes _ -> [])
      | FormattedValue (_, _, _) -> utoks sl qq v
      | _ -> []) vs
  in
  let body =
    match e with
    | Name i -> (TName i) :: []
    | Constant c -> (TLit (c, (const_text (flipq q) c))) :: []
    | JoinedStr vs ->
      let qq = flipq q in
      (TP ('f'::[])) :: ((TFText
      (qq :: [])) :: (app (fbody slot_JoinedStr_field qq vs) ((TFText
                       (qq :: [])) :: [])))
    | FormattedValue (v, _, spec) ->
      let vt = sub slot_FormattedValue_value v in
      let st =
        match spec with
        | Some e0 ->
          (match e0 with
           | Name _ -> (TP (':'::[])) :: []
           | JoinedStr svs ->
             (TP (':'::[])) :: (fbody slot_FormattedValue_spec_field q svs)
           | _ -> (TP (':'::[])) :: [])
        | None -> []
      in
      (TP
      ('{'::[])) :: (app
                      (if starts_with lBRACE (render vt)
                       then (TP (' '::[])) :: []
                       else [])
                      (app vt
                        (app st
                          (app
                            (if ends_with rBRACE (render st)
                             then (TP (' '::[])) :: []
                             else []) ((TP ('}'::[])) :: [])))))
    | Starred v -> (TP ('*'::[])) :: (sub slot_Starred_value v)
    | BinOp (l, o, r) ->
      app (sub (slot_BinOp_left o) l) ((TP
        (binop_text o)) :: (sub (slot_BinOp_right o) r))
    | BoolOp (o, vs) ->
      join ((TP (append (' '::[]) (append (boolop_text o) (' '::[])))) :: [])
        (map (sub (slot_BoolOp o)) vs)
    | UnaryOp (o, v) -> (TP (unop_text o)) :: (sub (slot_UnaryOp o) v)
    | EList l ->
      (TP
        ('['::[])) :: (app
                        (join ((TP (','::[])) :: [])
                          (map (sub slot_List_elt) l)) ((TP (']'::[])) :: []))
    | ETuple l ->
      (match l with
       | [] ->
         (TP
           ('('::[])) :: (app
                           (join ((TP (','::[])) :: [])
                             (map (sub slot_Tuple_elt) l)) ((TP
                           (')'::[])) :: []))
       | x :: l0 ->
         (match l0 with
          | [] ->
            (TP
              ('('::[])) :: (app (sub slot_Tuple_elt x) ((TP
                              (','::(')'::[]))) :: []))
          | _ :: _ ->
            (TP
              ('('::[])) :: (app
                              (join ((TP (','::[])) :: [])
                                (map (sub slot_Tuple_elt) l)) ((TP
                              (')'::[])) :: []))))
    | ESet l ->
      (TP
        ('{'::[])) :: (app
                        (join ((TP (','::[])) :: [])
                          (map (sub slot_Set_elt) l)) ((TP ('}'::[])) :: []))
    | EDict (ks, vs) ->
      (TP
        ('{'::[])) :: (app
                        (join ((TP (','::[])) :: [])
                          (let rec go ks0 vs0 =
                             match ks0 with
                             | [] -> []
                             | o :: ks' ->
                               (match o with
                                | Some k ->
                                  let (l, l0) = vs0 in
                                  (match l with
                                   | [] -> []
                                   | v :: vs' ->
                                     (match l0 with
                                      | [] -> []
                                      | _ :: ws' ->
                                        (app (sub slot_Dict_key k) ((TP
                                          (':'::[])) :: v)) :: (go ks' (vs',
                                                                 ws'))))
                                | None ->
                                  let (l, l0) = vs0 in
                                  (match l with
                                   | [] -> []
                                   | _ :: vs' ->
                                     (match l0 with
                                      | [] -> []
                                      | w :: ws' ->
                                        ((TP
                                          ('*'::('*'::[]))) :: w) :: 
                                          (go ks' (vs', ws')))))
                           in go ks ((map (sub slot_Dict_value) vs),
                                (map (sub slot_Dict_starvalue) vs)))) ((TP
                        ('}'::[])) :: []))
    | Compare (l, ops, cs) ->
      app (sub slot_Compare_left l)
        (let rec go cs0 ops0 =
           match cs0 with
           | [] -> []
           | c :: cs' ->
             (match ops0 with
              | [] -> []
              | o :: ops' ->
                (TP
                  (cmpop_text o)) :: (app (sub slot_Compare_comparator c)
                                       (go cs' ops')))
         in go cs ops)
    | Attribute (v, a) ->
      let vt = sub slot_Attribute_value v in
      app (paren (all_digits (render vt)) vt) ((TP ('.'::[])) :: ((TName
        a) :: []))
    | Subscript (v, s) ->
      app (sub slot_Subscript_value v) ((TP
        ('['::[])) :: (app (sub slot_Subscript_slice s) ((TP
                        (']'::[])) :: [])))
    | Slice (a, b, c) ->
      app (match a with
           | Some x -> sub slot_Slice_lower x
           | None -> []) ((TP
        (':'::[])) :: (app
                        (match b with
                         | Some x -> sub slot_Slice_upper x
                         | None -> []) ((TP
                        (':'::[])) :: (match c with
                                       | Some x -> sub slot_Slice_step x
                                       | None -> []))))
    | Call (f, args, kws) ->
      app (sub slot_Call_func f) ((TP
        ('('::[])) :: (app
                        (match args with
                         | [] ->
                           join ((TP (','::[])) :: [])
                             (app (map (sub slot_Call_arg) args)
                               (map (fun kw ->
                                 match fst kw with
                                 | Some k ->
                                   (TName k) :: ((TP
                                     ('='::[])) :: (sub slot_Call_kwarg
                                                     (snd kw)))
                                 | None ->
                                   (TP
                                     ('*'::('*'::[]))) :: (sub
                                                            slot_Call_kwarg
                                                            (snd kw))) kws))
                         | x :: l ->
                           (match l with
                            | [] ->
                              (match kws with
                               | [] -> sub slot_Call_onlyarg x
                               | _ :: _ ->
                                 join ((TP (','::[])) :: [])
                                   (app (map (sub slot_Call_arg) args)
                                     (map (fun kw ->
                                       match fst kw with
                                       | Some k ->
                                         (TName k) :: ((TP
                                           ('='::[])) :: (sub slot_Call_kwarg
                                                           (snd kw)))
                                       | None ->
                                         (TP
                                           ('*'::('*'::[]))) :: (sub
                                                                  slot_Call_kwarg
                                                                  (snd kw)))
                                       kws)))
                            | _ :: _ ->
                              join ((TP (','::[])) :: [])
                                (app (map (sub slot_Call_arg) args)
                                  (map (fun kw ->
                                    match fst kw with
                                    | Some k ->
                                      (TName k) :: ((TP
                                        ('='::[])) :: (sub slot_Call_kwarg
                                                        (snd kw)))
                                    | None ->
                                      (TP
                                        ('*'::('*'::[]))) :: (sub
                                                               slot_Call_kwarg
                                                               (snd kw))) kws))))
                        ((TP (')'::[])) :: [])))
    | NamedExpr (t, v) ->
      (TName t) :: ((TP (':'::('='::[]))) :: (sub slot_NamedExpr_value v))
    | Lambda (po, ar, va, ko, kd, kw, de, body) ->
      let pos =
        attach_defaults (map (fun n0 -> (TName n0) :: []) (app po ar))
          (map (sub slot_Lambda_default) de)
      in
      let pos0 =
        match po with
        | [] -> pos
        | _ :: _ ->
          app (firstn (length po) pos) (((TP
            ('/'::[])) :: []) :: (skipn (length po) pos))
      in
      let star =
        match va with
        | Some n0 -> ((TP ('*'::[])) :: ((TName n0) :: [])) :: []
        | None ->
          (match ko with
           | [] -> []
           | _ :: _ -> ((TP ('*'::[])) :: []) :: [])
      in
      let kws =
        attach_kwdefaults (map (fun n0 -> (TName n0) :: []) ko)
          (map (fun d ->
            match d with
            | Some x -> Some (sub slot_Lambda_kwdefault x)
            | None -> None) kd)
      in
      let kwa =
        match kw with
        | Some n0 -> ((TP ('*'::('*'::[]))) :: ((TName n0) :: [])) :: []
        | None -> []
      in
      let all = app pos0 (app star (app kws kwa)) in
      (TP
      ('l'::('a'::('m'::('b'::('d'::('a'::[]))))))) :: (app
                                                         (match all with
                                                          | [] -> []
                                                          | _ :: _ ->
                                                            (TP
                                                              (' '::[])) :: 
                                                              (join ((TP
                                                                (','::[])) :: [])
                                                                all)) ((TP
                                                         (':'::[])) :: 
                                                         (sub
                                                           slot_Lambda_body
                                                           body)))
    | ListComp (x, gs) ->
      (TP
        ('['::[])) :: (app (sub slot_ListComp_elt x) ((TP
                        (' '::[])) :: (app (comps gs) ((TP (']'::[])) :: []))))
    | SetComp (x, gs) ->
      (TP
        ('{'::[])) :: (app (sub slot_SetComp_elt x) ((TP
                        (' '::[])) :: (app (comps gs) ((TP ('}'::[])) :: []))))
    | GeneratorExp (x, gs) ->
      app (sub slot_GeneratorExp_elt x) ((TP (' '::[])) :: (comps gs))
    | DictComp (k, v, gs) ->
      (TP
        ('{'::[])) :: (app (sub slot_DictComp_key k) ((TP
                        (':'::[])) :: (app (sub slot_DictComp_value v) ((TP
                                        (' '::[])) :: (app (comps gs) ((TP
                                                        ('}'::[])) :: []))))))
    | IfExp (t, b, o) ->
      app (sub slot_IfExp_body b) ((TP
        (' '::('i'::('f'::(' '::[]))))) :: (app (sub slot_IfExp_test t) ((TP
                                             (' '::('e'::('l'::('s'::('e'::(' '::[]))))))) :: 
                                             (sub slot_IfExp_orelse o))))
    | Yield value ->
      (match value with
       | Some v ->
         (TP
           ('y'::('i'::('e'::('l'::('d'::(' '::[]))))))) :: (sub
                                                              slot_Yield_value
                                                              v)
       | None -> (TP ('y'::('i'::('e'::('l'::('d'::[])))))) :: [])
    | YieldFrom v ->
      (TP
        ('y'::('i'::('e'::('l'::('d'::(' '::('f'::('r'::('o'::('m'::(' '::[])))))))))))) :: 
        (sub slot_YieldFrom_value v)
    | Await v ->
      (TP
        ('a'::('w'::('a'::('i'::('t'::(' '::[]))))))) :: (sub
                                                           slot_Await_value v)
    | Other _ -> []
  in
  paren (Nat.ltb slot (node_prec e)) body

(** val unparse_toks : expr -> tok list **)

let unparse_toks e =
  utoks slot_top dQ e

(** val unparse : expr -> text **)

let unparse e =
  render (unparse_toks e)

(** val ok : sexp -> sexp **)

let ok x =
  L ((A ('o'::('k'::[]))) :: (x :: []))

(** val bad : char list -> sexp **)

let bad why =
  L ((A ('b'::('a'::('d'::[])))) :: ((A why) :: []))

(** val run_cmd : sexp -> sexp **)

let run_cmd = function
| A _ ->
  bad
    ('u'::('n'::('k'::('n'::('o'::('w'::('n'::('-'::('c'::('o'::('m'::('m'::('a'::('n'::('d'::[])))))))))))))))
| L l ->
  (match l with
   | [] ->
     bad
       ('u'::('n'::('k'::('n'::('o'::('w'::('n'::('-'::('c'::('o'::('m'::('m'::('a'::('n'::('d'::[])))))))))))))))
   | s :: l0 ->
     (match s with
      | A s0 ->
        (match s0 with
         | [] ->
           bad
             ('u'::('n'::('k'::('n'::('o'::('w'::('n'::('-'::('c'::('o'::('m'::('m'::('a'::('n'::('d'::[])))))))))))))))
         | a::s1 ->
           (* If this appears, you're using Ascii internals. Please don't *)
 (fun f c ->
  let n = Char.code c in
  let h i = (n land (1 lsl i)) <> 0 in
  f (h 0) (h 1) (h 2) (h 3) (h 4) (h 5) (h 6) (h 7))
             (fun b0 b1 b2 b3 b4 b5 b6 b7 ->
             if b0
             then if b1
                  then bad
                         ('u'::('n'::('k'::('n'::('o'::('w'::('n'::('-'::('c'::('o'::('m'::('m'::('a'::('n'::('d'::[])))))))))))))))
                  else if b2
                       then if b3
                            then bad
                                   ('u'::('n'::('k'::('n'::('o'::('w'::('n'::('-'::('c'::('o'::('m'::('m'::('a'::('n'::('d'::[])))))))))))))))
                            else if b4
                                 then if b5
                                      then if b6
                                           then if b7
                                                then bad
                                                       ('u'::('n'::('k'::('n'::('o'::('w'::('n'::('-'::('c'::('o'::('m'::('m'::('a'::('n'::('d'::[])))))))))))))))
                                                else (match s1 with
                                                      | [] ->
                                                        bad
                                                          ('u'::('n'::('k'::('n'::('o'::('w'::('n'::('-'::('c'::('o'::('m'::('m'::('a'::('n'::('d'::[])))))))))))))))
                                                      | a0::s2 ->
                                                        (* If this appears, you're using Ascii internals. Please don't *)
 (fun f c ->
  let n = Char.code c in
  let h i = (n land (1 lsl i)) <> 0 in
  f (h 0) (h 1) (h 2) (h 3) (h 4) (h 5) (h 6) (h 7))
                                                          (fun b b8 b9 b10 b11 b12 b13 b14 ->
                                                          if b
                                                          then bad
                                                                 ('u'::('n'::('k'::('n'::('o'::('w'::('n'::('-'::('c'::('o'::('m'::('m'::('a'::('n'::('d'::[])))))))))))))))
                                                          else if b8
                                                               then if b9
                                                                    then 
                                                                    if b10
                                                                    then 
                                                                    if b11
                                                                    then 
                                                                    bad
                                                                    ('u'::('n'::('k'::('n'::('o'::('w'::('n'::('-'::('c'::('o'::('m'::('m'::('a'::('n'::('d'::[])))))))))))))))
                                                                    else 
                                                                    if b12
                                                                    then 
                                                                    if b13
                                                                    then 
                                                                    if b14
                                                                    then 
                                                                    bad
                                                                    ('u'::('n'::('k'::('n'::('o'::('w'::('n'::('-'::('c'::('o'::('m'::('m'::('a'::('n'::('d'::[])))))))))))))))
                                                                    else 
                                                                    (match s2 with
                                                                    | [] ->
                                                                    bad
                                                                    ('u'::('n'::('k'::('n'::('o'::('w'::('n'::('-'::('c'::('o'::('m'::('m'::('a'::('n'::('d'::[])))))))))))))))
                                                                    | a1::s3 ->
                                                                    (* If this appears, you're using Ascii internals. Please don't *)
 (fun f c ->
  let n = Char.code c in
  let h i = (n land (1 lsl i)) <> 0 in
  f (h 0) (h 1) (h 2) (h 3) (h 4) (h 5) (h 6) (h 7))
                                                                    (fun b15 b16 b17 b18 b19 b20 b21 b22 ->
                                                                    if b15
                                                                    then 
                                                                    bad
                                                                    ('u'::('n'::('k'::('n'::('o'::('w'::('n'::('-'::('c'::('o'::('m'::('m'::('a'::('n'::('d'::[])))))))))))))))
                                                                    else 
                                                                    if b16
                                                                    then 
                                                                    bad
                                                                    ('u'::('n'::('k'::('n'::('o'::('w'::('n'::('-'::('c'::('o'::('m'::('m'::('a'::('n'::('d'::[])))))))))))))))
                                                                    else 
                                                                    if b17
                                                                    then 
                                                                    bad
                                                                    ('u'::('n'::('k'::('n'::('o'::('w'::('n'::('-'::('c'::('o'::('m'::('m'::('a'::('n'::('d'::[])))))))))))))))
                                                                    else 
                                                                    if b18
                                                                    then 
                                                                    bad
                                                                    ('u'::('n'::('k'::('n'::('o'::('w'::('n'::('-'::('c'::('o'::('m'::('m'::('a'::('n'::('d'::[])))))))))))))))
                                                                    else 
                                                                    if b19
                                                                    then 
                                                                    if b20
                                                                    then 
                                                                    if b21
                                                                    then 
                                                                    if b22
                                                                    then 
                                                                    bad
                                                                    ('u'::('n'::('k'::('n'::('o'::('w'::('n'::('-'::('c'::('o'::('m'::('m'::('a'::('n'::('d'::[])))))))))))))))
                                                                    else 
                                                                    (match s3 with
                                                                    | [] ->
                                                                    bad
                                                                    ('u'::('n'::('k'::('n'::('o'::('w'::('n'::('-'::('c'::('o'::('m'::('m'::('a'::('n'::('d'::[])))))))))))))))
                                                                    | a2::s4 ->
                                                                    (* If this appears, you're using Ascii internals. Please don't *)
 (fun f c ->
  let n = Char.code c in
  let h i = (n land (1 lsl i)) <> 0 in
  f (h 0) (h 1) (h 2) (h 3) (h 4) (h 5) (h 6) (h 7))
                                                                    (fun b23 b24 b25 b26 b27 b28 b29 b30 ->
                                                                    if b23
                                                                    then 
                                                                    if b24
                                                                    then 
                                                                    bad
                                                                    ('u'::('n'::('k'::('n'::('o'::('w'::('n'::('-'::('c'::('o'::('m'::('m'::('a'::('n'::('d'::[])))))))))))))))
                                                                    else 
                                                                    if b25
                                                                    then 
                                                                    bad
                                                                    ('u'::('n'::('k'::('n'::('o'::('w'::('n'::('-'::('c'::('o'::('m'::('m'::('a'::('n'::('d'::[])))))))))))))))
                                                                    else 
                                                                    if b26
                                                                    then 
                                                                    bad
                                                                    ('u'::('n'::('k'::('n'::('o'::('w'::('n'::('-'::('c'::('o'::('m'::('m'::('a'::('n'::('d'::[])))))))))))))))
                                                                    else 
                                                                    if b27
                                                                    then 
                                                                    bad
                                                                    ('u'::('n'::('k'::('n'::('o'::('w'::('n'::('-'::('c'::('o'::('m'::('m'::('a'::('n'::('d'::[])))))))))))))))
                                                                    else 
                                                                    if b28
                                                                    then 
                                                                    if b29
                                                                    then 
                                                                    if b30
                                                                    then 
                                                                    bad
                                                                    ('u'::('n'::('k'::('n'::('o'::('w'::('n'::('-'::('c'::('o'::('m'::('m'::('a'::('n'::('d'::[])))))))))))))))
                                                                    else 
                                                                    (match s4 with
                                                                    | [] ->
                                                                    bad
                                                                    ('u'::('n'::('k'::('n'::('o'::('w'::('n'::('-'::('c'::('o'::('m'::('m'::('a'::('n'::('d'::[])))))))))))))))
                                                                    | a3::s5 ->
                                                                    (* If this appears, you're using Ascii internals. Please don't *)
 (fun f c ->
  let n = Char.code c in
  let h i = (n land (1 lsl i)) <> 0 in
  f (h 0) (h 1) (h 2) (h 3) (h 4) (h 5) (h 6) (h 7))
                                                                    (fun b31 b32 b33 b34 b35 b36 b37 b38 ->
                                                                    if b31
                                                                    then 
                                                                    bad
                                                                    ('u'::('n'::('k'::('n'::('o'::('w'::('n'::('-'::('c'::('o'::('m'::('m'::('a'::('n'::('d'::[])))))))))))))))
                                                                    else 
                                                                    if b32
                                                                    then 
                                                                    if b33
                                                                    then 
                                                                    bad
                                                                    ('u'::('n'::('k'::('n'::('o'::('w'::('n'::('-'::('c'::('o'::('m'::('m'::('a'::('n'::('d'::[])))))))))))))))
                                                                    else 
                                                                    if b34
                                                                    then 
                                                                    bad
                                                                    ('u'::('n'::('k'::('n'::('o'::('w'::('n'::('-'::('c'::('o'::('m'::('m'::('a'::('n'::('d'::[])))))))))))))))
                                                                    else 
                                                                    if b35
                                                                    then 
                                                                    if b36
                                                                    then 
                                                                    if b37
                                                                    then 
                                                                    if b38
                                                                    then 
                                                                    bad
                                                                    ('u'::('n'::('k'::('n'::('o'::('w'::('n'::('-'::('c'::('o'::('m'::('m'::('a'::('n'::('d'::[])))))))))))))))
                                                                    else 
                                                                    (match s5 with
                                                                    | [] ->
                                                                    bad
                                                                    ('u'::('n'::('k'::('n'::('o'::('w'::('n'::('-'::('c'::('o'::('m'::('m'::('a'::('n'::('d'::[])))))))))))))))
                                                                    | a4::s6 ->
                                                                    (* If this appears, you're using Ascii internals. Please don't *)
 (fun f c ->
  let n = Char.code c in
  let h i = (n land (1 lsl i)) <> 0 in
  f (h 0) (h 1) (h 2) (h 3) (h 4) (h 5) (h 6) (h 7))
                                                                    (fun b39 b40 b41 b42 b43 b44 b45 b46 ->
                                                                    if b39
                                                                    then 
                                                                    if b40
                                                                    then 
                                                                    if b41
                                                                    then 
                                                                    bad
                                                                    ('u'::('n'::('k'::('n'::('o'::('w'::('n'::('-'::('c'::('o'::('m'::('m'::('a'::('n'::('d'::[])))))))))))))))
                                                                    else 
                                                                    if b42
                                                                    then 
                                                                    bad
                                                                    ('u'::('n'::('k'::('n'::('o'::('w'::('n'::('-'::('c'::('o'::('m'::('m'::('a'::('n'::('d'::[])))))))))))))))
                                                                    else 
                                                                    if b43
                                                                    then 
                                                                    if b44
                                                                    then 
                                                                    if b45
                                                                    then 
                                                                    if b46
                                                                    then 
                                                                    bad
                                                                    ('u'::('n'::('k'::('n'::('o'::('w'::('n'::('-'::('c'::('o'::('m'::('m'::('a'::('n'::('d'::[])))))))))))))))
                                                                    else 
                                                                    (match s6 with
                                                                    | [] ->
                                                                    bad
                                                                    ('u'::('n'::('k'::('n'::('o'::('w'::('n'::('-'::('c'::('o'::('m'::('m'::('a'::('n'::('d'::[])))))))))))))))
                                                                    | a5::s7 ->
                                                                    (* If this appears, you're using Ascii internals. Please don't *)
 (fun f c ->
  let n = Char.code c in
  let h i = (n land (1 lsl i)) <> 0 in
  f (h 0) (h 1) (h 2) (h 3) (h 4) (h 5) (h 6) (h 7))
                                                                    (fun b47 b48 b49 b50 b51 b52 b53 b54 ->
                                                                    if b47
                                                                    then 
                                                                    if b48
                                                                    then 
                                                                    bad
                                                                    ('u'::('n'::('k'::('n'::('o'::('w'::('n'::('-'::('c'::('o'::('m'::('m'::('a'::('n'::('d'::[])))))))))))))))
                                                                    else 
                                                                    if b49
                                                                    then 
                                                                    if b50
                                                                    then 
                                                                    bad
                                                                    ('u'::('n'::('k'::('n'::('o'::('w'::('n'::('-'::('c'::('o'::('m'::('m'::('a'::('n'::('d'::[])))))))))))))))
                                                                    else 
                                                                    if b51
                                                                    then 
                                                                    bad
                                                                    ('u'::('n'::('k'::('n'::('o'::('w'::('n'::('-'::('c'::('o'::('m'::('m'::('a'::('n'::('d'::[])))))))))))))))
                                                                    else 
                                                                    if b52
                                                                    then 
                                                                    if b53
                                                                    then 
                                                                    if b54
                                                                    then 
                                                                    bad
                                                                    ('u'::('n'::('k'::('n'::('o'::('w'::('n'::('-'::('c'::('o'::('m'::('m'::('a'::('n'::('d'::[])))))))))))))))
                                                                    else 
                                                                    (match s7 with
                                                                    | [] ->
                                                                    (match l0 with
                                                                    | [] ->
                                                                    bad
                                                                    ('u'::('n'::('k'::('n'::('o'::('w'::('n'::('-'::('c'::('o'::('m'::('m'::('a'::('n'::('d'::[])))))))))))))))
                                                                    | e :: l1 ->
                                                                    (match l1 with
                                                                    | [] ->
                                                                    (match 
                                                                    expr_of e with
                                                                    | Some e' ->
                                                                    ok
                                                                    (sx_cps
                                                                    (unparse
                                                                    e'))
                                                                    | None ->
                                                                    bad
                                                                    ('d'::('e'::('c'::('o'::('d'::('e'::('-'::('e'::('x'::('p'::('r'::[]))))))))))))
                                                                    | _ :: _ ->
                                                                    bad
                                                                    ('u'::('n'::('k'::('n'::('o'::('w'::('n'::('-'::('c'::('o'::('m'::('m'::('a'::('n'::('d'::[])))))))))))))))))
                                                                    | _::_ ->
                                                                    bad
                                                                    ('u'::('n'::('k'::('n'::('o'::('w'::('n'::('-'::('c'::('o'::('m'::('m'::('a'::('n'::('d'::[]))))))))))))))))
                                                                    else 
                                                                    bad
                                                                    ('u'::('n'::('k'::('n'::('o'::('w'::('n'::('-'::('c'::('o'::('m'::('m'::('a'::('n'::('d'::[])))))))))))))))
                                                                    else 
                                                                    bad
                                                                    ('u'::('n'::('k'::('n'::('o'::('w'::('n'::('-'::('c'::('o'::('m'::('m'::('a'::('n'::('d'::[])))))))))))))))
                                                                    else 
                                                                    bad
                                                                    ('u'::('n'::('k'::('n'::('o'::('w'::('n'::('-'::('c'::('o'::('m'::('m'::('a'::('n'::('d'::[])))))))))))))))
                                                                    else 
                                                                    bad
                                                                    ('u'::('n'::('k'::('n'::('o'::('w'::('n'::('-'::('c'::('o'::('m'::('m'::('a'::('n'::('d'::[]))))))))))))))))
                                                                    a5)
                                                                    else 
                                                                    bad
                                                                    ('u'::('n'::('k'::('n'::('o'::('w'::('n'::('-'::('c'::('o'::('m'::('m'::('a'::('n'::('d'::[])))))))))))))))
                                                                    else 
                                                                    bad
                                                                    ('u'::('n'::('k'::('n'::('o'::('w'::('n'::('-'::('c'::('o'::('m'::('m'::('a'::('n'::('d'::[])))))))))))))))
                                                                    else 
                                                                    bad
                                                                    ('u'::('n'::('k'::('n'::('o'::('w'::('n'::('-'::('c'::('o'::('m'::('m'::('a'::('n'::('d'::[])))))))))))))))
                                                                    else 
                                                                    bad
                                                                    ('u'::('n'::('k'::('n'::('o'::('w'::('n'::('-'::('c'::('o'::('m'::('m'::('a'::('n'::('d'::[])))))))))))))))
                                                                    else 
                                                                    bad
                                                                    ('u'::('n'::('k'::('n'::('o'::('w'::('n'::('-'::('c'::('o'::('m'::('m'::('a'::('n'::('d'::[]))))))))))))))))
                                                                    a4)
                                                                    else 
                                                                    bad
                                                                    ('u'::('n'::('k'::('n'::('o'::('w'::('n'::('-'::('c'::('o'::('m'::('m'::('a'::('n'::('d'::[])))))))))))))))
                                                                    else 
                                                                    bad
                                                                    ('u'::('n'::('k'::('n'::('o'::('w'::('n'::('-'::('c'::('o'::('m'::('m'::('a'::('n'::('d'::[])))))))))))))))
                                                                    else 
                                                                    bad
                                                                    ('u'::('n'::('k'::('n'::('o'::('w'::('n'::('-'::('c'::('o'::('m'::('m'::('a'::('n'::('d'::[])))))))))))))))
                                                                    else 
                                                                    bad
                                                                    ('u'::('n'::('k'::('n'::('o'::('w'::('n'::('-'::('c'::('o'::('m'::('m'::('a'::('n'::('d'::[]))))))))))))))))
                                                                    a3)
                                                                    else 
                                                                    bad
                                                                    ('u'::('n'::('k'::('n'::('o'::('w'::('n'::('-'::('c'::('o'::('m'::('m'::('a'::('n'::('d'::[])))))))))))))))
                                                                    else 
                                                                    bad
                                                                    ('u'::('n'::('k'::('n'::('o'::('w'::('n'::('-'::('c'::('o'::('m'::('m'::('a'::('n'::('d'::[])))))))))))))))
                                                                    else 
                                                                    bad
                                                                    ('u'::('n'::('k'::('n'::('o'::('w'::('n'::('-'::('c'::('o'::('m'::('m'::('a'::('n'::('d'::[]))))))))))))))))
                                                                    a2)
                                                                    else 
                                                                    bad
                                                                    ('u'::('n'::('k'::('n'::('o'::('w'::('n'::('-'::('c'::('o'::('m'::('m'::('a'::('n'::('d'::[])))))))))))))))
                                                                    else 
                                                                    bad
                                                                    ('u'::('n'::('k'::('n'::('o'::('w'::('n'::('-'::('c'::('o'::('m'::('m'::('a'::('n'::('d'::[])))))))))))))))
                                                                    else 
                                                                    bad
                                                                    ('u'::('n'::('k'::('n'::('o'::('w'::('n'::('-'::('c'::('o'::('m'::('m'::('a'::('n'::('d'::[]))))))))))))))))
                                                                    a1)
                                                                    else 
                                                                    bad
                                                                    ('u'::('n'::('k'::('n'::('o'::('w'::('n'::('-'::('c'::('o'::('m'::('m'::('a'::('n'::('d'::[])))))))))))))))
                                                                    else 
                                                                    bad
                                                                    ('u'::('n'::('k'::('n'::('o'::('w'::('n'::('-'::('c'::('o'::('m'::('m'::('a'::('n'::('d'::[])))))))))))))))
                                                                    else 
                                                                    bad
                                                                    ('u'::('n'::('k'::('n'::('o'::('w'::('n'::('-'::('c'::('o'::('m'::('m'::('a'::('n'::('d'::[])))))))))))))))
                                                                    else 
                                                                    bad
                                                                    ('u'::('n'::('k'::('n'::('o'::('w'::('n'::('-'::('c'::('o'::('m'::('m'::('a'::('n'::('d'::[])))))))))))))))
                                                               else bad
                                                                    ('u'::('n'::('k'::('n'::('o'::('w'::('n'::('-'::('c'::('o'::('m'::('m'::('a'::('n'::('d'::[]))))))))))))))))
                                                          a0)
                                           else bad
                                                  ('u'::('n'::('k'::('n'::('o'::('w'::('n'::('-'::('c'::('o'::('m'::('m'::('a'::('n'::('d'::[])))))))))))))))
                                      else bad
                                             ('u'::('n'::('k'::('n'::('o'::('w'::('n'::('-'::('c'::('o'::('m'::('m'::('a'::('n'::('d'::[])))))))))))))))
                                 else if b5
                                      then if b6
                                           then if b7
                                                then bad
                                                       ('u'::('n'::('k'::('n'::('o'::('w'::('n'::('-'::('c'::('o'::('m'::('m'::('a'::('n'::('d'::[])))))))))))))))
                                                else (match s1 with
                                                      | [] ->
                                                        bad
                                                          ('u'::('n'::('k'::('n'::('o'::('w'::('n'::('-'::('c'::('o'::('m'::('m'::('a'::('n'::('d'::[])))))))))))))))
                                                      | a0::s2 ->
                                                        (* If this appears, you're using Ascii internals. Please don't *)
 (fun f c ->
  let n = Char.code c in
  let h i = (n land (1 lsl i)) <> 0 in
  f (h 0) (h 1) (h 2) (h 3) (h 4) (h 5) (h 6) (h 7))
                                                          (fun b8 b9 b10 b11 b12 b13 b14 b15 ->
                                                          if b8
                                                          then if b9
                                                               then if b10
                                                                    then 
                                                                    bad
                                                                    ('u'::('n'::('k'::('n'::('o'::('w'::('n'::('-'::('c'::('o'::('m'::('m'::('a'::('n'::('d'::[])))))))))))))))
                                                                    else 
                                                                    if b11
                                                                    then 
                                                                    bad
                                                                    ('u'::('n'::('k'::('n'::('o'::('w'::('n'::('-'::('c'::('o'::('m'::('m'::('a'::('n'::('d'::[])))))))))))))))
                                                                    else 
                                                                    if b12
                                                                    then 
                                                                    bad
                                                                    ('u'::('n'::('k'::('n'::('o'::('w'::('n'::('-'::('c'::('o'::('m'::('m'::('a'::('n'::('d'::[])))))))))))))))
                                                                    else 
                                                                    if b13
                                                                    then 
                                                                    if b14
                                                                    then 
                                                                    if b15
                                                                    then 
                                                                    bad
                                                                    ('u'::('n'::('k'::('n'::('o'::('w'::('n'::('-'::('c'::('o'::('m'::('m'::('a'::('n'::('d'::[])))))))))))))))
                                                                    else 
                                                                    (match s2 with
                                                                    | [] ->
                                                                    bad
                                                                    ('u'::('n'::('k'::('n'::('o'::('w'::('n'::('-'::('c'::('o'::('m'::('m'::('a'::('n'::('d'::[])))))))))))))))
                                                                    | a1::s3 ->
                                                                    (* If this appears, you're using Ascii internals. Please don't *)
 (fun f c ->
  let n = Char.code c in
  let h i = (n land (1 lsl i)) <> 0 in
  f (h 0) (h 1) (h 2) (h 3) (h 4) (h 5) (h 6) (h 7))
                                                                    (fun b16 b17 b18 b19 b20 b21 b22 b23 ->
                                                                    if b16
                                                                    then 
                                                                    bad
                                                                    ('u'::('n'::('k'::('n'::('o'::('w'::('n'::('-'::('c'::('o'::('m'::('m'::('a'::('n'::('d'::[])))))))))))))))
                                                                    else 
                                                                    if b17
                                                                    then 
                                                                    bad
                                                                    ('u'::('n'::('k'::('n'::('o'::('w'::('n'::('-'::('c'::('o'::('m'::('m'::('a'::('n'::('d'::[])))))))))))))))
                                                                    else 
                                                                    if b18
                                                                    then 
                                                                    bad
                                                                    ('u'::('n'::('k'::('n'::('o'::('w'::('n'::('-'::('c'::('o'::('m'::('m'::('a'::('n'::('d'::[])))))))))))))))
                                                                    else 
                                                                    if b19
                                                                    then 
                                                                    if b20
                                                                    then 
                                                                    bad
                                                                    ('u'::('n'::('k'::('n'::('o'::('w'::('n'::('-'::('c'::('o'::('m'::('m'::('a'::('n'::('d'::[])))))))))))))))
                                                                    else 
                                                                    if b21
                                                                    then 
                                                                    if b22
                                                                    then 
                                                                    if b23
                                                                    then 
                                                                    bad
                                                                    ('u'::('n'::('k'::('n'::('o'::('w'::('n'::('-'::('c'::('o'::('m'::('m'::('a'::('n'::('d'::[])))))))))))))))
                                                                    else 
                                                                    (match s3 with
                                                                    | [] ->
                                                                    bad
                                                                    ('u'::('n'::('k'::('n'::('o'::('w'::('n'::('-'::('c'::('o'::('m'::('m'::('a'::('n'::('d'::[])))))))))))))))
                                                                    | a2::s4 ->
                                                                    (* If this appears, you're using Ascii internals. Please don't *)
 (fun f c ->
  let n = Char.code c in
  let h i = (n land (1 lsl i)) <> 0 in
  f (h 0) (h 1) (h 2) (h 3) (h 4) (h 5) (h 6) (h 7))
                                                                    (fun b24 b25 b26 b27 b28 b29 b30 b31 ->
                                                                    if b24
                                                                    then 
                                                                    if b25
                                                                    then 
                                                                    if b26
                                                                    then 
                                                                    if b27
                                                                    then 
                                                                    if b28
                                                                    then 
                                                                    bad
                                                                    ('u'::('n'::('k'::('n'::('o'::('w'::('n'::('-'::('c'::('o'::('m'::('m'::('a'::('n'::('d'::[])))))))))))))))
                                                                    else 
                                                                    if b29
                                                                    then 
                                                                    if b30
                                                                    then 
                                                                    if b31
                                                                    then 
                                                                    bad
                                                                    ('u'::('n'::('k'::('n'::('o'::('w'::('n'::('-'::('c'::('o'::('m'::('m'::('a'::('n'::('d'::[])))))))))))))))
                                                                    else 
                                                                    (match s4 with
                                                                    | [] ->
                                                                    bad
                                                                    ('u'::('n'::('k'::('n'::('o'::('w'::('n'::('-'::('c'::('o'::('m'::('m'::('a'::('n'::('d'::[])))))))))))))))
                                                                    | a3::s5 ->
                                                                    (* If this appears, you're using Ascii internals. Please don't *)
 (fun f c ->
  let n = Char.code c in
  let h i = (n land (1 lsl i)) <> 0 in
  f (h 0) (h 1) (h 2) (h 3) (h 4) (h 5) (h 6) (h 7))
                                                                    (fun b32 b33 b34 b35 b36 b37 b38 b39 ->
                                                                    if b32
                                                                    then 
                                                                    if b33
                                                                    then 
                                                                    bad
                                                                    ('u'::('n'::('k'::('n'::('o'::('w'::('n'::('-'::('c'::('o'::('m'::('m'::('a'::('n'::('d'::[])))))))))))))))
                                                                    else 
                                                                    if b34
                                                                    then 
                                                                    if b35
                                                                    then 
                                                                    if b36
                                                                    then 
                                                                    bad
                                                                    ('u'::('n'::('k'::('n'::('o'::('w'::('n'::('-'::('c'::('o'::('m'::('m'::('a'::('n'::('d'::[])))))))))))))))
                                                                    else 
                                                                    if b37
                                                                    then 
                                                                    if b38
                                                                    then 
                                                                    bad
                                                                    ('u'::('n'::('k'::('n'::('o'::('w'::('n'::('-'::('c'::('o'::('m'::('m'::('a'::('n'::('d'::[])))))))))))))))
                                                                    else 
                                                                    if b39
                                                                    then 
                                                                    bad
                                                                    ('u'::('n'::('k'::('n'::('o'::('w'::('n'::('-'::('c'::('o'::('m'::('m'::('a'::('n'::('d'::[])))))))))))))))
                                                                    else 
                                                                    (match s5 with
                                                                    | [] ->
                                                                    bad
                                                                    ('u'::('n'::('k'::('n'::('o'::('w'::('n'::('-'::('c'::('o'::('m'::('m'::('a'::('n'::('d'::[])))))))))))))))
                                                                    | a4::s6 ->
                                                                    (* If this appears, you're using Ascii internals. Please don't *)
 (fun f c ->
  let n = Char.code c in
  let h i = (n land (1 lsl i)) <> 0 in
  f (h 0) (h 1) (h 2) (h 3) (h 4) (h 5) (h 6) (h 7))
                                                                    (fun b40 b41 b42 b43 b44 b45 b46 b47 ->
                                                                    if b40
                                                                    then 
                                                                    if b41
                                                                    then 
                                                                    bad
                                                                    ('u'::('n'::('k'::('n'::('o'::('w'::('n'::('-'::('c'::('o'::('m'::('m'::('a'::('n'::('d'::[])))))))))))))))
                                                                    else 
                                                                    if b42
                                                                    then 
                                                                    if b43
                                                                    then 
                                                                    bad
                                                                    ('u'::('n'::('k'::('n'::('o'::('w'::('n'::('-'::('c'::('o'::('m'::('m'::('a'::('n'::('d'::[])))))))))))))))
                                                                    else 
                                                                    if b44
                                                                    then 
                                                                    bad
                                                                    ('u'::('n'::('k'::('n'::('o'::('w'::('n'::('-'::('c'::('o'::('m'::('m'::('a'::('n'::('d'::[])))))))))))))))
                                                                    else 
                                                                    if b45
                                                                    then 
                                                                    if b46
                                                                    then 
                                                                    if b47
                                                                    then 
                                                                    bad
                                                                    ('u'::('n'::('k'::('n'::('o'::('w'::('n'::('-'::('c'::('o'::('m'::('m'::('a'::('n'::('d'::[])))))))))))))))
                                                                    else 
                                                                    (match s6 with
                                                                    | [] ->
                                                                    bad
                                                                    ('u'::('n'::('k'::('n'::('o'::('w'::('n'::('-'::('c'::('o'::('m'::('m'::('a'::('n'::('d'::[])))))))))))))))
                                                                    | a5::s7 ->
                                                                    (* If this appears, you're using Ascii internals. Please don't *)
 (fun f c ->
  let n = Char.code c in
  let h i = (n land (1 lsl i)) <> 0 in
  f (h 0) (h 1) (h 2) (h 3) (h 4) (h 5) (h 6) (h 7))
                                                                    (fun b b48 b49 b50 b51 b52 b53 b54 ->
                                                                    if b
                                                                    then 
                                                                    bad
                                                                    ('u'::('n'::('k'::('n'::('o'::('w'::('n'::('-'::('c'::('o'::('m'::('m'::('a'::('n'::('d'::[])))))))))))))))
                                                                    else 
                                                                    if b48
                                                                    then 
                                                                    bad
                                                                    ('u'::('n'::('k'::('n'::('o'::('w'::('n'::('-'::('c'::('o'::('m'::('m'::('a'::('n'::('d'::[])))))))))))))))
                                                                    else 
                                                                    if b49
                                                                    then 
                                                                    bad
                                                                    ('u'::('n'::('k'::('n'::('o'::('w'::('n'::('-'::('c'::('o'::('m'::('m'::('a'::('n'::('d'::[])))))))))))))))
                                                                    else 
                                                                    if b50
                                                                    then 
                                                                    if b51
                                                                    then 
                                                                    if b52
                                                                    then 
                                                                    if b53
                                                                    then 
                                                                    if b54
                                                                    then 
                                                                    bad
                                                                    ('u'::('n'::('k'::('n'::('o'::('w'::('n'::('-'::('c'::('o'::('m'::('m'::('a'::('n'::('d'::[])))))))))))))))
                                                                    else 
                                                                    (match s7 with
                                                                    | [] ->
                                                                    bad
                                                                    ('u'::('n'::('k'::('n'::('o'::('w'::('n'::('-'::('c'::('o'::('m'::('m'::('a'::('n'::('d'::[])))))))))))))))
                                                                    | a6::s8 ->
                                                                    (* If this appears, you're using Ascii internals. Please don't *)
 (fun f c ->
  let n = Char.code c in
  let h i = (n land (1 lsl i)) <> 0 in
  f (h 0) (h 1) (h 2) (h 3) (h 4) (h 5) (h 6) (h 7))
                                                                    (fun b55 b56 b57 b58 b59 b60 b61 b62 ->
                                                                    if b55
                                                                    then 
                                                                    bad
                                                                    ('u'::('n'::('k'::('n'::('o'::('w'::('n'::('-'::('c'::('o'::('m'::('m'::('a'::('n'::('d'::[])))))))))))))))
                                                                    else 
                                                                    if b56
                                                                    then 
                                                                    bad
                                                                    ('u'::('n'::('k'::('n'::('o'::('w'::('n'::('-'::('c'::('o'::('m'::('m'::('a'::('n'::('d'::[])))))))))))))))
                                                                    else 
                                                                    if b57
                                                                    then 
                                                                    bad
                                                                    ('u'::('n'::('k'::('n'::('o'::('w'::('n'::('-'::('c'::('o'::('m'::('m'::('a'::('n'::('d'::[])))))))))))))))
                                                                    else 
                                                                    if b58
                                                                    then 
                                                                    bad
                                                                    ('u'::('n'::('k'::('n'::('o'::('w'::('n'::('-'::('c'::('o'::('m'::('m'::('a'::('n'::('d'::[])))))))))))))))
                                                                    else 
                                                                    if b59
                                                                    then 
                                                                    if b60
                                                                    then 
                                                                    if b61
                                                                    then 
                                                                    if b62
                                                                    then 
                                                                    bad
                                                                    ('u'::('n'::('k'::('n'::('o'::('w'::('n'::('-'::('c'::('o'::('m'::('m'::('a'::('n'::('d'::[])))))))))))))))
                                                                    else 
                                                                    (match s8 with
                                                                    | [] ->
                                                                    bad
                                                                    ('u'::('n'::('k'::('n'::('o'::('w'::('n'::('-'::('c'::('o'::('m'::('m'::('a'::('n'::('d'::[])))))))))))))))
                                                                    | a7::s9 ->
                                                                    (* If this appears, you're using Ascii internals. Please don't *)
 (fun f c ->
  let n = Char.code c in
  let h i = (n land (1 lsl i)) <> 0 in
  f (h 0) (h 1) (h 2) (h 3) (h 4) (h 5) (h 6) (h 7))
                                                                    (fun b63 b64 b65 b66 b67 b68 b69 b70 ->
                                                                    if b63
                                                                    then 
                                                                    bad
                                                                    ('u'::('n'::('k'::('n'::('o'::('w'::('n'::('-'::('c'::('o'::('m'::('m'::('a'::('n'::('d'::[])))))))))))))))
                                                                    else 
                                                                    if b64
                                                                    then 
                                                                    if b65
                                                                    then 
                                                                    bad
                                                                    ('u'::('n'::('k'::('n'::('o'::('w'::('n'::('-'::('c'::('o'::('m'::('m'::('a'::('n'::('d'::[])))))))))))))))
                                                                    else 
                                                                    if b66
                                                                    then 
                                                                    bad
                                                                    ('u'::('n'::('k'::('n'::('o'::('w'::('n'::('-'::('c'::('o'::('m'::('m'::('a'::('n'::('d'::[])))))))))))))))
                                                                    else 
                                                                    if b67
                                                                    then 
                                                                    if b68
                                                                    then 
                                                                    if b69
                                                                    then 
                                                                    if b70
                                                                    then 
                                                                    bad
                                                                    ('u'::('n'::('k'::('n'::('o'::('w'::('n'::('-'::('c'::('o'::('m'::('m'::('a'::('n'::('d'::[])))))))))))))))
                                                                    else 
                                                                    (match s9 with
                                                                    | [] ->
                                                                    (match l0 with
                                                                    | [] ->
                                                                    bad
                                                                    ('u'::('n'::('k'::('n'::('o'::('w'::('n'::('-'::('c'::('o'::('m'::('m'::('a'::('n'::('d'::[])))))))))))))))
                                                                    | e :: l1 ->
                                                                    (match l1 with
                                                                    | [] ->
                                                                    (match 
                                                                    expr_of e with
                                                                    | Some e' ->
                                                                    ok
                                                                    (sx_expr
                                                                    e')
                                                                    | None ->
                                                                    bad
                                                                    ('d'::('e'::('c'::('o'::('d'::('e'::('-'::('e'::('x'::('p'::('r'::[]))))))))))))
                                                                    | _ :: _ ->
                                                                    bad
                                                                    ('u'::('n'::('k'::('n'::('o'::('w'::('n'::('-'::('c'::('o'::('m'::('m'::('a'::('n'::('d'::[])))))))))))))))))
                                                                    | _::_ ->
                                                                    bad
                                                                    ('u'::('n'::('k'::('n'::('o'::('w'::('n'::('-'::('c'::('o'::('m'::('m'::('a'::('n'::('d'::[]))))))))))))))))
                                                                    else 
                                                                    bad
                                                                    ('u'::('n'::('k'::('n'::('o'::('w'::('n'::('-'::('c'::('o'::('m'::('m'::('a'::('n'::('d'::[])))))))))))))))
                                                                    else 
                                                                    bad
                                                                    ('u'::('n'::('k'::('n'::('o'::('w'::('n'::('-'::('c'::('o'::('m'::('m'::('a'::('n'::('d'::[])))))))))))))))
                                                                    else 
                                                                    bad
                                                                    ('u'::('n'::('k'::('n'::('o'::('w'::('n'::('-'::('c'::('o'::('m'::('m'::('a'::('n'::('d'::[])))))))))))))))
                                                                    else 
                                                                    bad
                                                                    ('u'::('n'::('k'::('n'::('o'::('w'::('n'::('-'::('c'::('o'::('m'::('m'::('a'::('n'::('d'::[]))))))))))))))))
                                                                    a7)
                                                                    else 
                                                                    bad
                                                                    ('u'::('n'::('k'::('n'::('o'::('w'::('n'::('-'::('c'::('o'::('m'::('m'::('a'::('n'::('d'::[])))))))))))))))
                                                                    else 
                                                                    bad
                                                                    ('u'::('n'::('k'::('n'::('o'::('w'::('n'::('-'::('c'::('o'::('m'::('m'::('a'::('n'::('d'::[])))))))))))))))
                                                                    else 
                                                                    bad
                                                                    ('u'::('n'::('k'::('n'::('o'::('w'::('n'::('-'::('c'::('o'::('m'::('m'::('a'::('n'::('d'::[]))))))))))))))))
                                                                    a6)
                                                                    else 
                                                                    bad
                                                                    ('u'::('n'::('k'::('n'::('o'::('w'::('n'::('-'::('c'::('o'::('m'::('m'::('a'::('n'::('d'::[])))))))))))))))
                                                                    else 
                                                                    bad
                                                                    ('u'::('n'::('k'::('n'::('o'::('w'::('n'::('-'::('c'::('o'::('m'::('m'::('a'::('n'::('d'::[])))))))))))))))
                                                                    else 
                                                                    bad
                                                                    ('u'::('n'::('k'::('n'::('o'::('w'::('n'::('-'::('c'::('o'::('m'::('m'::('a'::('n'::('d'::[])))))))))))))))
                                                                    else 
                                                                    bad
                                                                    ('u'::('n'::('k'::('n'::('o'::('w'::('n'::('-'::('c'::('o'::('m'::('m'::('a'::('n'::('d'::[]))))))))))))))))
                                                                    a5)
                                                                    else 
                                                                    bad
                                                                    ('u'::('n'::('k'::('n'::('o'::('w'::('n'::('-'::('c'::('o'::('m'::('m'::('a'::('n'::('d'::[])))))))))))))))
                                                                    else 
                                                                    bad
                                                                    ('u'::('n'::('k'::('n'::('o'::('w'::('n'::('-'::('c'::('o'::('m'::('m'::('a'::('n'::('d'::[])))))))))))))))
                                                                    else 
                                                                    bad
                                                                    ('u'::('n'::('k'::('n'::('o'::('w'::('n'::('-'::('c'::('o'::('m'::('m'::('a'::('n'::('d'::[])))))))))))))))
                                                                    else 
                                                                    if b41
                                                                    then 
                                                                    if b42
                                                                    then 
                                                                    bad
                                                                    ('u'::('n'::('k'::('n'::('o'::('w'::('n'::('-'::('c'::('o'::('m'::('m'::('a'::('n'::('d'::[])))))))))))))))
                                                                    else 
                                                                    if b43
                                                                    then 
                                                                    bad
                                                                    ('u'::('n'::('k'::('n'::('o'::('w'::('n'::('-'::('c'::('o'::('m'::('m'::('a'::('n'::('d'::[])))))))))))))))
                                                                    else 
                                                                    if b44
                                                                    then 
                                                                    bad
                                                                    ('u'::('n'::('k'::('n'::('o'::('w'::('n'::('-'::('c'::('o'::('m'::('m'::('a'::('n'::('d'::[])))))))))))))))
                                                                    else 
                                                                    if b45
                                                                    then 
                                                                    if b46
                                                                    then 
                                                                    if b47
                                                                    then 
                                                                    bad
                                                                    ('u'::('n'::('k'::('n'::('o'::('w'::('n'::('-'::('c'::('o'::('m'::('m'::('a'::('n'::('d'::[])))))))))))))))
                                                                    else 
                                                                    (match s6 with
                                                                    | [] ->
                                                                    bad
                                                                    ('u'::('n'::('k'::('n'::('o'::('w'::('n'::('-'::('c'::('o'::('m'::('m'::('a'::('n'::('d'::[])))))))))))))))
                                                                    | a5::s7 ->
                                                                    (* If this appears, you're using Ascii internals. Please don't *)
 (fun f c ->
  let n = Char.code c in
  let h i = (n land (1 lsl i)) <> 0 in
  f (h 0) (h 1) (h 2) (h 3) (h 4) (h 5) (h 6) (h 7))
                                                                    (fun b48 b49 b50 b51 b52 b53 b54 b55 ->
                                                                    if b48
                                                                    then 
                                                                    bad
                                                                    ('u'::('n'::('k'::('n'::('o'::('w'::('n'::('-'::('c'::('o'::('m'::('m'::('a'::('n'::('d'::[])))))))))))))))
                                                                    else 
                                                                    if b49
                                                                    then 
                                                                    bad
                                                                    ('u'::('n'::('k'::('n'::('o'::('w'::('n'::('-'::('c'::('o'::('m'::('m'::('a'::('n'::('d'::[])))))))))))))))
                                                                    else 
                                                                    if b50
                                                                    then 
                                                                    if b51
                                                                    then 
                                                                    if b52
                                                                    then 
                                                                    bad
                                                                    ('u'::('n'::('k'::('n'::('o'::('w'::('n'::('-'::('c'::('o'::('m'::('m'::('a'::('n'::('d'::[])))))))))))))))
                                                                    else 
                                                                    if b53
                                                                    then 
                                                                    if b54
                                                                    then 
                                                                    if b55
                                                                    then 
                                                                    bad
                                                                    ('u'::('n'::('k'::('n'::('o'::('w'::('n'::('-'::('c'::('o'::('m'::('m'::('a'::('n'::('d'::[])))))))))))))))
                                                                    else 
                                                                    (match s7 with
                                                                    | [] ->
                                                                    bad
                                                                    ('u'::('n'::('k'::('n'::('o'::('w'::('n'::('-'::('c'::('o'::('m'::('m'::('a'::('n'::('d'::[])))))))))))))))
                                                                    | a6::s8 ->
                                                                    (* If this appears, you're using Ascii internals. Please don't *)
 (fun f c ->
  let n = Char.code c in
  let h i = (n land (1 lsl i)) <> 0 in
  f (h 0) (h 1) (h 2) (h 3) (h 4) (h 5) (h 6) (h 7))
                                                                    (fun b56 b57 b58 b59 b60 b61 b62 b63 ->
                                                                    if b56
                                                                    then 
                                                                    if b57
                                                                    then 
                                                                    if b58
                                                                    then 
                                                                    if b59
                                                                    then 
                                                                    if b60
                                                                    then 
                                                                    bad
                                                                    ('u'::('n'::('k'::('n'::('o'::('w'::('n'::('-'::('c'::('o'::('m'::('m'::('a'::('n'::('d'::[])))))))))))))))
                                                                    else 
                                                                    if b61
                                                                    then 
                                                                    if b62
                                                                    then 
                                                                    if b63
                                                                    then 
                                                                    bad
                                                                    ('u'::('n'::('k'::('n'::('o'::('w'::('n'::('-'::('c'::('o'::('m'::('m'::('a'::('n'::('d'::[])))))))))))))))
                                                                    else 
                                                                    (match s8 with
                                                                    | [] ->
                                                                    bad
                                                                    ('u'::('n'::('k'::('n'::('o'::('w'::('n'::('-'::('c'::('o'::('m'::('m'::('a'::('n'::('d'::[])))))))))))))))
                                                                    | a7::s9 ->
                                                                    (* If this appears, you're using Ascii internals. Please don't *)
 (fun f c ->
  let n = Char.code c in
  let h i = (n land (1 lsl i)) <> 0 in
  f (h 0) (h 1) (h 2) (h 3) (h 4) (h 5) (h 6) (h 7))
                                                                    (fun b64 b65 b66 b67 b68 b69 b70 b71 ->
                                                                    if b64
                                                                    then 
                                                                    if b65
                                                                    then 
                                                                    if b66
                                                                    then 
                                                                    bad
                                                                    ('u'::('n'::('k'::('n'::('o'::('w'::('n'::('-'::('c'::('o'::('m'::('m'::('a'::('n'::('d'::[])))))))))))))))
                                                                    else 
                                                                    if b67
                                                                    then 
                                                                    bad
                                                                    ('u'::('n'::('k'::('n'::('o'::('w'::('n'::('-'::('c'::('o'::('m'::('m'::('a'::('n'::('d'::[])))))))))))))))
                                                                    else 
                                                                    if b68
                                                                    then 
                                                                    bad
                                                                    ('u'::('n'::('k'::('n'::('o'::('w'::('n'::('-'::('c'::('o'::('m'::('m'::('a'::('n'::('d'::[])))))))))))))))
                                                                    else 
                                                                    if b69
                                                                    then 
                                                                    if b70
                                                                    then 
                                                                    if b71
                                                                    then 
                                                                    bad
                                                                    ('u'::('n'::('k'::('n'::('o'::('w'::('n'::('-'::('c'::('o'::('m'::('m'::('a'::('n'::('d'::[])))))))))))))))
                                                                    else 
                                                                    (match s9 with
                                                                    | [] ->
                                                                    bad
                                                                    ('u'::('n'::('k'::('n'::('o'::('w'::('n'::('-'::('c'::('o'::('m'::('m'::('a'::('n'::('d'::[])))))))))))))))
                                                                    | a8::s10 ->
                                                                    (* If this appears, you're using Ascii internals. Please don't *)
 (fun f c ->
  let n = Char.code c in
  let h i = (n land (1 lsl i)) <> 0 in
  f (h 0) (h 1) (h 2) (h 3) (h 4) (h 5) (h 6) (h 7))
                                                                    (fun b72 b73 b74 b75 b76 b77 b78 b79 ->
                                                                    if b72
                                                                    then 
                                                                    if b73
                                                                    then 
                                                                    if b74
                                                                    then 
                                                                    bad
                                                                    ('u'::('n'::('k'::('n'::('o'::('w'::('n'::('-'::('c'::('o'::('m'::('m'::('a'::('n'::('d'::[])))))))))))))))
                                                                    else 
                                                                    if b75
                                                                    then 
                                                                    if b76
                                                                    then 
                                                                    bad
                                                                    ('u'::('n'::('k'::('n'::('o'::('w'::('n'::('-'::('c'::('o'::('m'::('m'::('a'::('n'::('d'::[])))))))))))))))
                                                                    else 
                                                                    if b77
                                                                    then 
                                                                    if b78
                                                                    then 
                                                                    if b79
                                                                    then 
                                                                    bad
                                                                    ('u'::('n'::('k'::('n'::('o'::('w'::('n'::('-'::('c'::('o'::('m'::('m'::('a'::('n'::('d'::[])))))))))))))))
                                                                    else 
                                                                    (match s10 with
                                                                    | [] ->
                                                                    (match l0 with
                                                                    | [] ->
                                                                    bad
                                                                    ('u'::('n'::('k'::('n'::('o'::('w'::('n'::('-'::('c'::('o'::('m'::('m'::('a'::('n'::('d'::[])))))))))))))))
                                                                    | b :: l1 ->
                                                                    (match l1 with
                                                                    | [] ->
                                                                    (match 
                                                                    block_of b with
                                                                    | Some _ ->
                                                                    ok (A
                                                                    ('b'::('l'::('o'::('c'::('k'::[]))))))
                                                                    | None ->
                                                                    bad
                                                                    ('d'::('e'::('c'::('o'::('d'::('e'::('-'::('b'::('l'::('o'::('c'::('k'::[])))))))))))))
                                                                    | _ :: _ ->
                                                                    bad
                                                                    ('u'::('n'::('k'::('n'::('o'::('w'::('n'::('-'::('c'::('o'::('m'::('m'::('a'::('n'::('d'::[])))))))))))))))))
                                                                    | _::_ ->
                                                                    bad
                                                                    ('u'::('n'::('k'::('n'::('o'::('w'::('n'::('-'::('c'::('o'::('m'::('m'::('a'::('n'::('d'::[]))))))))))))))))
                                                                    else 
                                                                    bad
                                                                    ('u'::('n'::('k'::('n'::('o'::('w'::('n'::('-'::('c'::('o'::('m'::('m'::('a'::('n'::('d'::[])))))))))))))))
                                                                    else 
                                                                    bad
                                                                    ('u'::('n'::('k'::('n'::('o'::('w'::('n'::('-'::('c'::('o'::('m'::('m'::('a'::('n'::('d'::[])))))))))))))))
                                                                    else 
                                                                    bad
                                                                    ('u'::('n'::('k'::('n'::('o'::('w'::('n'::('-'::('c'::('o'::('m'::('m'::('a'::('n'::('d'::[])))))))))))))))
                                                                    else 
                                                                    bad
                                                                    ('u'::('n'::('k'::('n'::('o'::('w'::('n'::('-'::('c'::('o'::('m'::('m'::('a'::('n'::('d'::[])))))))))))))))
                                                                    else 
                                                                    bad
                                                                    ('u'::('n'::('k'::('n'::('o'::('w'::('n'::('-'::('c'::('o'::('m'::('m'::('a'::('n'::('d'::[]))))))))))))))))
                                                                    a8)
                                                                    else 
                                                                    bad
                                                                    ('u'::('n'::('k'::('n'::('o'::('w'::('n'::('-'::('c'::('o'::('m'::('m'::('a'::('n'::('d'::[])))))))))))))))
                                                                    else 
                                                                    bad
                                                                    ('u'::('n'::('k'::('n'::('o'::('w'::('n'::('-'::('c'::('o'::('m'::('m'::('a'::('n'::('d'::[])))))))))))))))
                                                                    else 
                                                                    bad
                                                                    ('u'::('n'::('k'::('n'::('o'::('w'::('n'::('-'::('c'::('o'::('m'::('m'::('a'::('n'::('d'::[])))))))))))))))
                                                                    else 
                                                                    bad
                                                                    ('u'::('n'::('k'::('n'::('o'::('w'::('n'::('-'::('c'::('o'::('m'::('m'::('a'::('n'::('d'::[]))))))))))))))))
                                                                    a7)
                                                                    else 
                                                                    bad
                                                                    ('u'::('n'::('k'::('n'::('o'::('w'::('n'::('-'::('c'::('o'::('m'::('m'::('a'::('n'::('d'::[])))))))))))))))
                                                                    else 
                                                                    bad
                                                                    ('u'::('n'::('k'::('n'::('o'::('w'::('n'::('-'::('c'::('o'::('m'::('m'::('a'::('n'::('d'::[])))))))))))))))
                                                                    else 
                                                                    bad
                                                                    ('u'::('n'::('k'::('n'::('o'::('w'::('n'::('-'::('c'::('o'::('m'::('m'::('a'::('n'::('d'::[])))))))))))))))
                                                                    else 
                                                                    bad
                                                                    ('u'::('n'::('k'::('n'::('o'::('w'::('n'::('-'::('c'::('o'::('m'::('m'::('a'::('n'::('d'::[])))))))))))))))
                                                                    else 
                                                                    bad
                                                                    ('u'::('n'::('k'::('n'::('o'::('w'::('n'::('-'::('c'::('o'::('m'::('m'::('a'::('n'::('d'::[])))))))))))))))
                                                                    else 
                                                                    bad
                                                                    ('u'::('n'::('k'::('n'::('o'::('w'::('n'::('-'::('c'::('o'::('m'::('m'::('a'::('n'::('d'::[]))))))))))))))))
                                                                    a6)
                                                                    else 
                                                                    bad
                                                                    ('u'::('n'::('k'::('n'::('o'::('w'::('n'::('-'::('c'::('o'::('m'::('m'::('a'::('n'::('d'::[])))))))))))))))
                                                                    else 
                                                                    bad
                                                                    ('u'::('n'::('k'::('n'::('o'::('w'::('n'::('-'::('c'::('o'::('m'::('m'::('a'::('n'::('d'::[])))))))))))))))
                                                                    else 
                                                                    bad
                                                                    ('u'::('n'::('k'::('n'::('o'::('w'::('n'::('-'::('c'::('o'::('m'::('m'::('a'::('n'::('d'::[])))))))))))))))
                                                                    else 
                                                                    bad
                                                                    ('u'::('n'::('k'::('n'::('o'::('w'::('n'::('-'::('c'::('o'::('m'::('m'::('a'::('n'::('d'::[]))))))))))))))))
                                                                    a5)
                                                                    else 
                                                                    bad
                                                                    ('u'::('n'::('k'::('n'::('o'::('w'::('n'::('-'::('c'::('o'::('m'::('m'::('a'::('n'::('d'::[])))))))))))))))
                                                                    else 
                                                                    bad
                                                                    ('u'::('n'::('k'::('n'::('o'::('w'::('n'::('-'::('c'::('o'::('m'::('m'::('a'::('n'::('d'::[])))))))))))))))
                                                                    else 
                                                                    bad
                                                                    ('u'::('n'::('k'::('n'::('o'::('w'::('n'::('-'::('c'::('o'::('m'::('m'::('a'::('n'::('d'::[]))))))))))))))))
                                                                    a4)
                                                                    else 
                                                                    bad
                                                                    ('u'::('n'::('k'::('n'::('o'::('w'::('n'::('-'::('c'::('o'::('m'::('m'::('a'::('n'::('d'::[])))))))))))))))
                                                                    else 
                                                                    bad
                                                                    ('u'::('n'::('k'::('n'::('o'::('w'::('n'::('-'::('c'::('o'::('m'::('m'::('a'::('n'::('d'::[])))))))))))))))
                                                                    else 
                                                                    bad
                                                                    ('u'::('n'::('k'::('n'::('o'::('w'::('n'::('-'::('c'::('o'::('m'::('m'::('a'::('n'::('d'::[])))))))))))))))
                                                                    else 
                                                                    bad
                                                                    ('u'::('n'::('k'::('n'::('o'::('w'::('n'::('-'::('c'::('o'::('m'::('m'::('a'::('n'::('d'::[]))))))))))))))))
                                                                    a3)
                                                                    else 
                                                                    bad
                                                                    ('u'::('n'::('k'::('n'::('o'::('w'::('n'::('-'::('c'::('o'::('m'::('m'::('a'::('n'::('d'::[])))))))))))))))
                                                                    else 
                                                                    bad
                                                                    ('u'::('n'::('k'::('n'::('o'::('w'::('n'::('-'::('c'::('o'::('m'::('m'::('a'::('n'::('d'::[])))))))))))))))
                                                                    else 
                                                                    bad
                                                                    ('u'::('n'::('k'::('n'::('o'::('w'::('n'::('-'::('c'::('o'::('m'::('m'::('a'::('n'::('d'::[])))))))))))))))
                                                                    else 
                                                                    bad
                                                                    ('u'::('n'::('k'::('n'::('o'::('w'::('n'::('-'::('c'::('o'::('m'::('m'::('a'::('n'::('d'::[])))))))))))))))
                                                                    else 
                                                                    bad
                                                                    ('u'::('n'::('k'::('n'::('o'::('w'::('n'::('-'::('c'::('o'::('m'::('m'::('a'::('n'::('d'::[])))))))))))))))
                                                                    else 
                                                                    bad
                                                                    ('u'::('n'::('k'::('n'::('o'::('w'::('n'::('-'::('c'::('o'::('m'::('m'::('a'::('n'::('d'::[]))))))))))))))))
                                                                    a2)
                                                                    else 
                                                                    bad
                                                                    ('u'::('n'::('k'::('n'::('o'::('w'::('n'::('-'::('c'::('o'::('m'::('m'::('a'::('n'::('d'::[])))))))))))))))
                                                                    else 
                                                                    bad
                                                                    ('u'::('n'::('k'::('n'::('o'::('w'::('n'::('-'::('c'::('o'::('m'::('m'::('a'::('n'::('d'::[])))))))))))))))
                                                                    else 
                                                                    bad
                                                                    ('u'::('n'::('k'::('n'::('o'::('w'::('n'::('-'::('c'::('o'::('m'::('m'::('a'::('n'::('d'::[]))))))))))))))))
                                                                    a1)
                                                                    else 
                                                                    bad
                                                                    ('u'::('n'::('k'::('n'::('o'::('w'::('n'::('-'::('c'::('o'::('m'::('m'::('a'::('n'::('d'::[])))))))))))))))
                                                                    else 
                                                                    bad
                                                                    ('u'::('n'::('k'::('n'::('o'::('w'::('n'::('-'::('c'::('o'::('m'::('m'::('a'::('n'::('d'::[])))))))))))))))
                                                               else bad
                                                                    ('u'::('n'::('k'::('n'::('o'::('w'::('n'::('-'::('c'::('o'::('m'::('m'::('a'::('n'::('d'::[])))))))))))))))
                                                          else bad
                                                                 ('u'::('n'::('k'::('n'::('o'::('w'::('n'::('-'::('c'::('o'::('m'::('m'::('a'::('n'::('d'::[]))))))))))))))))
                                                          a0)
                                           else bad
                                                  ('u'::('n'::('k'::('n'::('o'::('w'::('n'::('-'::('c'::('o'::('m'::('m'::('a'::('n'::('d'::[])))))))))))))))
                                      else bad
                                             ('u'::('n'::('k'::('n'::('o'::('w'::('n'::('-'::('c'::('o'::('m'::('m'::('a'::('n'::('d'::[])))))))))))))))
                       else bad
                              ('u'::('n'::('k'::('n'::('o'::('w'::('n'::('-'::('c'::('o'::('m'::('m'::('a'::('n'::('d'::[])))))))))))))))
             else bad
                    ('u'::('n'::('k'::('n'::('o'::('w'::('n'::('-'::('c'::('o'::('m'::('m'::('a'::('n'::('d'::[]))))))))))))))))
             a)
      | L _ ->
        bad
          ('u'::('n'::('k'::('n'::('o'::('w'::('n'::('-'::('c'::('o'::('m'::('m'::('a'::('n'::('d'::[])))))))))))))))))

(** val run_line : char list -> char list **)

let run_line s =
  match parse_sexp s with
  | Some x -> sexp_to_string (run_cmd x)
  | None -> sexp_to_string (bad ('p'::('a'::('r'::('s'::('e'::[]))))))
