#!/bin/sh
# Build the framework from files on disk only (offline): tables from /repo, Coq development, extracted binary.
here=$(cd "$(dirname "$0")" && pwd)
cd "$here" || exit 1
export PYTHONPATH="${OL_REPO:-/repo}:$here" PYTHONHASHSEED=0 PYTHONDONTWRITEBYTECODE=1
rm -f extract/modelrun
exec /venv/bin/python -W ignore - <<'PY'
import sys
from harness import common
b = common.ensure_built()
print("tables:", b.tables)
print("make ok:", b.make_ok, "binary ok:", b.binary_ok, "wall: %.1fs" % b.wall)
if not (b.make_ok and b.binary_ok):
    print(b.make_log[-4000:])
    sys.exit(1)
PY
