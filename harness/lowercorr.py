"""Correspondence between the Coq converter model (Lower.v) and the real converter."""
import ast
import symtable
import sys

from harness import sexp, common

CONFIGS = [(ch, sh) for ch in (False, True) for sh in (False, True)]   # (chain_call?, short_circuit?)


def make_configs(chain, short, unparser="oneliner"):
    from oneliner.config import Configs
    c = Configs()
    c.expr_wrapper = "chain_call" if chain else "list"
    c.if_style = "short_circuit" if short else "if_expr"
    c.unparser = unparser
    return c


def real_lower(src, chain, short):
    """-> ('ok', sexp text of the output AST) | ('err', exception class name)"""
    import oneliner
    conv = sys.modules["oneliner.convert"].convert
    try:
        tree = ast.parse(src)
        st = symtable.symtable(src, "<string>", "exec")
    except (SyntaxError, ValueError) as e:
        return ("nosrc", type(e).__name__)
    try:
        out = conv(tree, st, make_configs(chain, short))
    except RecursionError:
        return ("err", "RecursionError")
    except Exception as e:
        return ("err", type(e).__name__)
    try:
        return ("ok", sexp.canon_ol(sexp.expr(out)))
    except sexp.Unserialisable as e:
        return ("unser", str(e))


def model_line(src, chain, short, host_lt_312=None):
    if host_lt_312 is None:
        host_lt_312 = sys.version_info < (3, 12)
    tree = ast.parse(src)
    st = symtable.symtable(src, "<string>", "exec")
    b = lambda x: "1" if x else "0"
    return f"(lower ({b(chain)} {b(short)} {b(host_lt_312)}) {sexp.symtab(st)} {sexp.block(tree.body)})"


def parse_model_answer(ans):
    if ans.startswith("(ok "):
        return ("ok", sexp.canon_ol(ans[4:-1]))
    if ans.startswith("(err "):
        return ("err", ans[5:-1])
    return ("bad", ans[:200])


def compare(sources, configs=CONFIGS):
    """Run model and implementation on every (source, config); returns list of dicts for disagreements and stats."""
    lines, keys, reals = [], [], []
    stats = {"ok": 0, "err": 0, "skipped": 0}
    for src in sources:
        for ch, sh in configs:
            try:
                line = model_line(src, ch, sh)
            except (sexp.Unserialisable, SyntaxError, ValueError, RecursionError):
                stats["skipped"] += 1
                continue
            r = real_lower(src, ch, sh)
            if r[0] in ("nosrc", "unser"):
                stats["skipped"] += 1
                continue
            lines.append(line)
            keys.append((src, ch, sh))
            reals.append(r)
    answers = common.model_eval(lines)
    diffs = []
    for k, r, a in zip(keys, reals, answers):
        m = parse_model_answer(a)
        stats[r[0]] += 1
        if m != r:
            diffs.append({"source": k[0], "chain_call": k[1], "short_circuit": k[2], "real": r, "model": m})
    return diffs, stats
