"""Programs exercising assignment, destructuring and augmented assignment (C13, C07)."""
import itertools
import random

OPS = ["+", "-", "*", "@", "/", "%", "**", "<<", ">>", "|", "^", "&", "//"]

# operand catalogue: (initial value expr, right operand expr) per operator family that is defined for it
OPERANDS = {
    "int": ("7", {"+": "3", "-": "3", "*": "3", "/": "2", "%": "4", "**": "2", "<<": "2", ">>": "1", "|": "8", "^": "5", "&": "6", "//": "2"}),
    "float": ("7.5", {"+": "1.5", "-": "0.5", "*": "2.0", "/": "2.0", "%": "2.0", "**": "2.0", "//": "2.0"}),
    "str": ("'ab'", {"+": "'cd'", "*": "2", "%": "()"}),
    "list": ("[1, 2]", {"+": "[3]", "*": "2"}),
    "tuple": ("(1, 2)", {"+": "(3,)", "*": "2"}),
    "set": ("{1, 2}", {"-": "{1}", "|": "{3}", "^": "{2, 5}", "&": "{2, 9}"}),
    "dict": ("{1: 2}", {"|": "{3: 4}"}),
    "inplace": ("IP(1)", {op: "2" for op in OPS}),       # user class with in-place methods returning self
    "noinplace": ("NI(1)", {op: "2" for op in OPS}),     # user class with only binary methods
    "inplace_new": ("IPN(1)", {op: "2" for op in OPS}),  # in-place methods that return a NEW object (the name must be rebound)
}

PRELUDE = '''
class IP:
    def __init__(self, v): self.v = [v]
    def _ip(self, o): self.v.append(o); return self
    __iadd__ = __isub__ = __imul__ = __imatmul__ = __itruediv__ = __imod__ = __ipow__ = _ip
    __ilshift__ = __irshift__ = __ior__ = __ixor__ = __iand__ = __ifloordiv__ = _ip
    def __repr__(self): return "IP" + repr(self.v)
class IPN:
    def __init__(self, v): self.v = [v]
    def _ip(self, o):
        r = IPN(0); r.v = self.v + [o]; return r
    __iadd__ = __isub__ = __imul__ = __imatmul__ = __itruediv__ = __imod__ = __ipow__ = _ip
    __ilshift__ = __irshift__ = __ior__ = __ixor__ = __iand__ = __ifloordiv__ = _ip
    def __repr__(self): return "IPN" + repr(self.v)
class NI:
    def __init__(self, v): self.v = (v,)
    def _b(self, o): return NI2(self.v + (o,))
    __add__ = __sub__ = __mul__ = __matmul__ = __truediv__ = __mod__ = __pow__ = _b
    __lshift__ = __rshift__ = __or__ = __xor__ = __and__ = __floordiv__ = _b
    def __repr__(self): return type(self).__name__ + repr(self.v)
class NI2(NI):
    def __init__(self, v): self.v = v
class Box:
    pass
'''


def aug_program(kind, op, target, placement):
    init, rights = OPERANDS[kind]
    if op not in rights:
        return None
    rhs = rights[op]
    lines = []
    if target == "name":
        setup, tgt, show = f"x = {init}\nalias = x", "x", "x, alias"
    elif target == "attr":
        setup, tgt, show = f"o = Box()\no.a = {init}\nalias = o.a", "o.a", "o.a, alias"
    elif target == "sub":
        setup, tgt, show = f"d = {{'k': {init}}}\nalias = d['k']", "d['k']", "d, alias"
    elif target == "slice":
        if kind != "list" or op not in ("+", "*"):
            return None
        setup, tgt, show = "l = [0, 1, 2, 3, 4]\nalias = l", "l[1:3]", "l, alias"
    else:
        raise ValueError(target)
    stmt = f"{tgt} {op}= {rhs}"
    if placement == "global":
        body = f"{setup}\n{stmt}\nprint({show})\n"
    elif placement == "local":
        body = "def f():\n" + _ind(f"{setup}\n{stmt}\nprint({show})\nreturn {show.split(',')[0]}") + "\nr = f()\nprint(r)\n"
    elif placement == "nonlocal":
        if target != "name":
            return None
        body = ("def f():\n" + _ind(f"{setup}\ndef g():\n    nonlocal x\n    {stmt}\ng()\nprint({show})\nreturn x")
                + "\nr = f()\nprint(r)\n")
    elif placement == "globaldecl":
        if target != "name":
            return None
        body = f"{setup}\ndef g():\n    global x\n    {stmt}\ng()\nprint({show})\n"
    elif placement == "classglobal":
        # the augmented name is a module global so far: the class body reads the global and binds a class member
        if target != "name":
            return None
        body = (f"{setup}\nclass K:\n" + _ind(f"{stmt}\nprint({show})")
                + f"\nprint({show}, sorted(k for k in vars(K) if not k.startswith('__')), K.x)\n")
    elif placement == "class":
        body = "class K:\n" + _ind(f"{setup}\n{stmt}\nprint({show})") + "\nprint(sorted(k for k in vars(K) if not k.startswith('__')))\n"
    else:
        raise ValueError(placement)
    return PRELUDE + body


def _ind(s):
    return "\n".join("    " + l for l in s.split("\n"))


def all_aug_programs():
    for kind in OPERANDS:
        for op in OPS:
            for target in ("name", "attr", "sub", "slice"):
                for placement in ("global", "local", "nonlocal", "globaldecl", "class", "classglobal"):
                    p = aug_program(kind, op, target, placement)
                    if p is not None:
                        yield (kind, op, target, placement), p


# ---------------------------------------------------------------------------------------------
# destructuring

def gen_pattern(rng, depth, names):
    """returns (pattern text, shape) where shape is nested list: 'n' name, ('*',) star, or list of shapes"""
    n = rng.randint(1, 4)
    star = rng.randrange(n + 1) if rng.random() < 0.6 else None   # index n = no star
    parts, shape = [], []
    for i in range(n):
        if depth > 0 and rng.random() < 0.3:
            t, s = gen_pattern(rng, depth - 1, names)
            br = rng.choice(["()", "[]"])
            parts.append(br[0] + t + ("," if br == "()" and len(s) == 1 else "") + br[1])
            shape.append(s)
        elif i == star:
            nm = f"v{len(names)}"
            names.append(nm)
            parts.append("*" + nm)
            shape.append(("*",))
        else:
            nm = f"v{len(names)}"
            names.append(nm)
            parts.append(nm)
            shape.append("n")
    return ", ".join(parts), shape


def gen_value(rng, shape, extra_for_star, counter):
    """a Python expression text producing a sequence matching `shape`"""
    items = []
    for s in shape:
        if s == "n":
            counter[0] += 1
            items.append(str(counter[0]))
        elif s == ("*",):
            for _ in range(extra_for_star):
                counter[0] += 1
                items.append(str(counter[0]))
        else:
            items.append(gen_value(rng, s, rng.randint(0, 2), counter))
    kind = rng.choice(["list", "tuple", "gen", "iter", "range", "str", "dictkeys"])
    if kind == "range" and all(i.isdigit() for i in items) and items:
        a = int(items[0])
        if [str(x) for x in range(a, a + len(items))] == items:
            return f"range({a}, {a + len(items)})"
        kind = "list"
    if kind == "str" and all(i.isdigit() for i in items) and items:
        return repr("".join(chr(97 + int(i) % 26) for i in items))
    if kind == "dictkeys" and all(i.isdigit() for i in items):
        return "{" + ", ".join(f"{i}: 0" for i in items) + "}.keys()"
    if kind == "gen":
        return "(q for q in [" + ", ".join(items) + "])"
    if kind == "iter":
        return "iter([" + ", ".join(items) + "])"
    if kind == "tuple":
        return "(" + ", ".join(items) + ("," if len(items) == 1 else "") + ")"
    return "[" + ", ".join(items) + "]"


def destructure_program(rng, placement=None):
    names = []
    pat, shape = gen_pattern(rng, 2, names)
    if len(shape) == 1:
        pat += ","          # a one-element pattern (a name, a star, a nested pattern) needs its comma
    val = gen_value(rng, shape, rng.randint(0, 3), [0])
    placement = placement or rng.choice(["global", "local", "class", "captured"])
    show = ", ".join(names)
    stmt = f"{pat} = {val}"
    if placement == "global":
        return f"{stmt}\nprint({show})\n"
    if placement == "local":
        return f"def f():\n    {stmt}\n    return [{show}]\nprint(f())\n"
    if placement == "captured":
        return f"def f():\n    {stmt}\n    def g():\n        return [{show}]\n    return g()\nprint(f())\n"
    if placement == "class":
        return f"class K:\n    {stmt}\n    print({show})\nprint([K.{names[0]}])\n"
    raise ValueError(placement)


# ---------------------------------------------------------------------------------------------
# plain stores to attribute / subscript / slice targets

SLICE_FORMS = ["l[1:3]", "l[:2]", "l[2:]", "l[:]", "l[::2]", "l[1::2]", "l[:4:2]", "l[1:5:2]"]


def store_programs():
    for form in SLICE_FORMS:
        n = {"l[::2]": 3, "l[1::2]": 3, "l[:4:2]": 2, "l[1:5:2]": 2}.get(form)
        rhs = "[9] * %d" % n if n else "[7, 8, 9]"
        yield ("slice", form), f"l = [0, 1, 2, 3, 4, 5]\nalias = l\n{form} = {rhs}\nprint(l, alias is l)\n"
        yield ("slice-local", form), f"def f():\n    l = [0, 1, 2, 3, 4, 5]\n    {form} = {rhs}\n    return l\nprint(f())\n"
    yield ("attr",), PRELUDE + "o = Box()\no.a = 1\no.b = o.a + 1\nprint(o.a, o.b)\n"
    yield ("sub",), "d = {}\nd['a'] = 1\nd['b', 2] = d['a'] + 1\nprint(d)\n"
    yield ("sub-local-index",), "def f(k):\n    d = {}\n    d[k] = 1\n    d[k + 1] = 2\n    return d\nprint(f(3))\n"
    yield ("multi",), "a = b = [1]\na.append(2)\nprint(a, b, a is b)\n"
    yield ("multi-pattern",), "(a, b), c = d = [(1, 2), 3]\nprint(a, b, c, d)\n"
    yield ("ann",), "x: int = 5\ny: str\nprint(x)\n"
    # simultaneous assignment: the whole right-hand side is evaluated before any target is stored (the right-hand side is a
    # display that reads the targets)
    SIM = {
        "swap": "a, b = 1, 2\na, b = b, a\nprint(a, b)\n",
        "fib": "a, b = 0, 1\nfor _ in range(10):\n    a, b = b, a + b\nprint(a, b)\n",
        "rotate-list": "a, b, c = 1, 2, 3\n[a, b, c] = [b, c, a]\nprint(a, b, c)\n",
        "elements": "x = [10, 20, 30]\ni, j = 0, 2\nx[i], x[j] = x[j], x[i]\nprint(x)\n",
        "attributes": PRELUDE + "o = Box()\no.p, o.q = 1, 2\no.p, o.q = o.q, o.p\nprint(o.p, o.q)\n",
        "nested": "a, b, c = 1, 2, 3\na, (b, c) = c, (a, b)\nprint(a, b, c)\n",
        "mixed": "x = [1, 2]\na = 5\na, x[0], x[1] = x[1], a, x[0]\nprint(a, x)\n",
        "slices": "l = [1, 2, 3, 4]\nl[:2], l[2:] = l[2:], l[:2]\nprint(l)\n",
        "chain-swap": "a, b = 1, 2\nt = a, b = b, a\nprint(t, a, b)\n",
    }
    # chained assignment: the targets are stored LEFT TO RIGHT, each store seeing the ones before it (a later target's object /
    # index reads what an earlier target bound; creation order of keys, attributes, class members)
    CHAIN = {
        "index-after-name": "a = [0, 0, 0]\ni = 0\ni = a[i] = 2\nprint(i, a)\n",
        "linked": PRELUDE + "head = node = Box()\nfor k in range(3):\n    node.nxt = node = Box()\n    node.k = k\nout = []\nn = head\nwhile hasattr(n, 'nxt'):\n    n = n.nxt\n    out.append(n.k)\nprint(out)\n",
        "key-order": "d = {}\nd['a'] = d['b'] = d['c'] = 0\nprint(list(d))\n",
        "attr-order": PRELUDE + "o = Box()\no.x = o.y = o.z = 1\nprint(list(vars(o)))\n",
        "class-members": "class K:\n    first = second = third = 1\nprint([k for k in vars(K) if not k.startswith('_')])\n",
        "three-dependent": "x = [5, 6, 7]\nk = 0\nk = x[k] = x[k - 1] = 2\nprint(k, x)\n",
        "in-function": "def f():\n    a = [0, 0, 0]\n    i = 0\n    i = a[i] = 1\n    d = {}\n    d[i] = d[i + 1] = i\n    return i, a, list(d)\nprint(f())\n",
    }
    for k, body in CHAIN.items():
        yield ("chained", k), body
    # augmented assignment to obj[NAME] where NAME is a captured variable / a parameter shared with a nested def / a class member
    # (the index is a name of the defining scope like any other expression)
    AUGIDX = {
        "closure-index": "def outer(key):\n    d = {'a': 1, 'b': 5}\n    def bump():\n        d[key] += 5\n        d[key] *= 2\n    bump()\n    return d\nprint(outer('a'), outer('b'))\n",
        "shared-local-index": "def f(ws):\n    tot = [0, 0, 0]\n    for w in ws:\n        def peek():\n            return w\n        tot[w] += peek() + 1\n        tot[w] <<= 1\n    return tot\nprint(f([0, 2, 2]))\n",
        "class-member-index": "class K:\n    slot = 1\n    cells = [10, 20, 30]\n    cells[slot] -= 5\n    cells[slot] //= 2\nprint(K.cells)\n",
        "shadowed-global-index": "i = 2\ndef g(i):\n    xs = [10, 20, 30]\n    def h():\n        xs[i] += 60\n        return i\n    h()\n    return xs\nprint(g(0), i)\n",
    }
    for k, body in AUGIDX.items():
        yield ("aug-name-index", k), body
    for k, body in SIM.items():
        yield ("simultaneous", k), body
        ind = "\n".join("    " + l for l in body.strip().split("\n"))
        if "PRELUDE" not in k and not body.startswith(PRELUDE):
            yield ("simultaneous-local", k), "def f():\n" + ind + "\nf()\n"
            yield ("simultaneous-class", k), "class K:\n" + ind + "\n"
            lines = body.strip().split("\n")
            yield ("simultaneous-captured", k), ("def f():\n" + ind + "\n    def g():\n        return (a,)\n    return g()\nf()\n"
                                                 if lines[0].startswith("a") else "def f():\n" + ind + "\nf()\n")
