"""Scope trees for C06: nested module / function / class / lambda / comprehension scopes, each giving the tracked name one
role from the catalogue.  Every scope prints what it sees of the name after its own binding operation and again after its
children ran, so a read or write that lands in a different variable shows up in the output (or the final namespace)."""
import itertools

HELPER = '''
def show(v):
    if isinstance(v, (int, str)): return v
    if isinstance(v, type): return ('class', v.v)
    if callable(v): return ('fn', v())
    if isinstance(v, tuple): return ('star',) + tuple(show(i) for i in v)
    if isinstance(v, dict): return ('kwstar',) + tuple((k, show(i)) for k, i in v.items())
    return type(v).__name__
def _hb(s, v):
    print(s, 'h', show(v))
    return object
class _KW:
    def __init_subclass__(cls, tag=None, **kw):
        super().__init_subclass__(**kw)
'''

STMT_KINDS = ("function", "class")
EXPR_KINDS = ("lambda", "comp")
ROLES = {
    "module": ("none", "read", "assign", "aug", "walrus", "for", "def", "class", "import"),
    "function": ("none", "read", "assign", "aug", "walrus", "for", "def", "class", "import", "param",
                 # every kind of parameter is a local of the function (captured by inner scopes like any other)
                 "param-star", "param-kwstar", "param-kwonly", "param-posonly", "param-default",
                 # a default value is evaluated in the ENCLOSING scope: it reads that scope's variable, also under the same name
                 "default-read", "default-same", "kwdefault-same", "global-assign",
                 # expression scopes (generator expression, lambda, comprehension) inside the default values ON the def line:
                 # sibling scopes of the function that start on the same line; the body reads the enclosing variable
                 "default-scopes-read",
                 "global-read", "nonlocal-assign", "nonlocal-read", "nonlocal-aug", "late-assign",
                 # a (never executed) mention of __class__ BEFORE the name is used: in a method the implicit __class__ cell
                 # then precedes the name in the list of free variables
                 "classref-read", "classref-nonlocal-assign", "classref-nonlocal-aug"),
    "class": ("none", "read", "assign", "aug", "walrus", "for", "def", "class", "import", "global-assign", "global-read",
              "nonlocal-assign", "nonlocal-read", "late-assign",
              # the header of a class statement (bases, keywords) is evaluated in the ENCLOSING scope, whatever the body binds
              "base-read", "base-read-assign", "kw-read"),
    "lambda": ("none", "read", "param", "walrus", "param-default", "param-star", "param-kwstar", "param-kwonly", "param-posonly",
               "default-read", "default-same"),
    "comp": ("none", "read", "target", "walrus", "iter-read", "iter-target"),
}


class Node:
    def __init__(self, kind, role, children=()):
        self.kind, self.role, self.children = kind, role, list(children)

    def key(self):
        return (self.kind, self.role, tuple(c.key() for c in self.children))

    def depth(self):
        return 1 + max([c.depth() for c in self.children], default=0)


class Render:
    def __init__(self, name="x"):
        self.n = 0
        self.name = name

    def tag(self):
        self.n += 1
        return self.n * 10

    def sid(self):
        self.n += 1
        return self.n

    def binding_stmts(self, role, sid):
        x = self.name
        t = self.tag()
        rd = f"print({sid}, 'a', show({x}))"
        return {
            "none": [],
            "read": [f"print({sid}, 'r', show({x}))"],
            "assign": [f"{x} = {t}", rd],
            "late-assign": [],
            "aug": [f"{x} += {t}", rd],
            "walrus": [f"print({sid}, 'w', ({x} := {t}))", rd],
            "for": [f"for {x} in [{t}]:", "    pass", rd],
            "def": [f"def {x}():", f"    return {t}", rd],
            "class": [f"class {x}:", f"    v = {t}", rd],
            "import": [f"import math as {x}", rd],
            "base-read": [], "kw-read": [], "base-read-assign": [f"{x} = {t}", rd],
            "param": [rd], "param-star": [rd], "param-kwstar": [rd], "param-kwonly": [rd], "param-posonly": [rd],
            "param-default": [rd], "default-same": [rd], "kwdefault-same": [rd],
            "default-read": [f"print({sid}, 'd', show(_d{sid}))", f"print({sid}, 'r', show({x}))"],
            "default-scopes-read": [f"print({sid}, 'd', show(_d{sid}), show(_e{sid}()), show(_g{sid}))", f"print({sid}, 'r', show({x}))"],
            "global-assign": [f"global {x}", f"{x} = {t}", rd],
            "global-read": [f"global {x}", f"print({sid}, 'r', show({x}))"],
            "nonlocal-assign": [f"nonlocal {x}", f"{x} = {t}", rd],
            "nonlocal-aug": [f"nonlocal {x}", f"{x} += {t}", rd],
            "nonlocal-read": [f"nonlocal {x}", f"print({sid}, 'r', show({x}))"],
            "classref-read": ["if 0:", "    __class__", f"print({sid}, 'r', show({x}))"],
            "classref-nonlocal-assign": [f"nonlocal {x}", "if 0:", "    __class__", f"{x} = {t}", rd],
            "classref-nonlocal-aug": [f"nonlocal {x}", "if 0:", "    __class__", f"{x} += {t}", rd],
        }[role]

    def post(self, role, sid):
        x = self.name
        if role == "none":
            return []
        out = [f"print({sid}, 'p', show({x}))"]
        if role == "late-assign":
            out = [f"{x} = {self.tag()}"] + out
        return out

    def stmts(self, node):
        """statements realising a module/function/class scope (module: the whole program body)"""
        sid = self.sid()
        x = self.name
        body = list(self.binding_stmts(node.role, sid))
        for c in node.children:
            body += self.child_stmts(c)
        body += self.post(node.role, sid)
        if node.kind == "module":
            return body
        if not body:
            body = ["pass"]
        ind = ["    " + l for l in body]
        if node.kind == "function":
            if node.role == "param":
                return [f"def f{sid}({x}):"] + ind + [f"f{sid}({self.tag()})"]
            if node.role == "param-star":
                return [f"def f{sid}(*{x}):"] + ind + [f"f{sid}({self.tag()}, {self.tag()})"]
            if node.role == "param-kwstar":
                return [f"def f{sid}(**{x}):"] + ind + [f"f{sid}(k={self.tag()})"]
            if node.role == "param-kwonly":
                return [f"def f{sid}(*, {x}):"] + ind + [f"f{sid}({x}={self.tag()})"]
            if node.role == "param-posonly":
                return [f"def f{sid}({x}, /):"] + ind + [f"f{sid}({self.tag()})"]
            if node.role == "param-default":
                return [f"def f{sid}({x}={self.tag()}):"] + ind + [f"f{sid}()"]
            if node.role == "default-read":
                return [f"def f{sid}(_d{sid}={x}):"] + ind + [f"f{sid}()"]
            if node.role == "default-scopes-read":
                return [f"def f{sid}(_d{sid}=tuple(_q + 1 for _q in (1, 2)), *, _e{sid}=lambda: 7, _g{sid}=[_r for _r in 'ab']):"] + ind + [f"f{sid}()"]
            if node.role == "default-same":
                return [f"def f{sid}({x}={x}):"] + ind + [f"f{sid}()"]
            if node.role == "kwdefault-same":
                return [f"def f{sid}(*, {x}={x}):"] + ind + [f"f{sid}()"]
            return [f"def f{sid}():"] + ind + [f"f{sid}()"]
        if node.role in ("base-read", "base-read-assign"):
            return [f"class C{sid}(_hb({sid}, {x})):"] + ind
        if node.role == "kw-read":
            return [f"class C{sid}(_KW, tag=_hb({sid}, {x})):"] + ind
        return [f"class C{sid}:"] + ind

    def child_stmts(self, c):
        if c.kind in STMT_KINDS:
            return self.stmts(c)
        return [self.expr(c)]

    def expr(self, node):
        """an expression realising a lambda / comprehension scope"""
        sid = self.sid()
        x = self.name
        t = self.tag()
        items = []
        r = node.role
        if r == "iter-read":
            # what the first iterable (evaluated in the ENCLOSING scope) saw, then what the comprehension's own scope sees
            items.append(f"print({sid}, 'i', show(_i{sid}))")
        if r in ("read", "iter-read"):
            items.append(f"print({sid}, 'r', show({x}))")
        if r == "default-read":
            items.append(f"print({sid}, 'd', show(_d{sid}))")
            items.append(f"print({sid}, 'r', show({x}))")
        elif r in ("param", "target", "param-default", "iter-target", "param-star", "param-kwstar", "param-kwonly", "param-posonly",
                   "default-same"):
            items.append(f"print({sid}, 'a', show({x}))")
        elif r == "walrus":
            items.append(f"print({sid}, 'w', ({x} := {t}))")
            items.append(f"print({sid}, 'a', show({x}))")
        for c in node.children:
            items.append(self.expr(c))
        if r != "none":
            items.append(f"print({sid}, 'p', show({x}))")
        body = "[" + ", ".join(items) + "]"
        if node.kind == "lambda":
            if r == "param":
                return f"(lambda {x}: {body})({t})"
            if r == "param-default":
                return f"(lambda {x}={t}: {body})()"
            if r == "default-read":
                return f"(lambda _d{sid}={x}: {body})()"
            if r == "default-same":
                return f"(lambda {x}={x}: {body})()"
            # every kind of parameter binds its name in the lambda
            if r == "param-star":
                return f"(lambda *{x}: {body})({t})"
            if r == "param-kwstar":
                return f"(lambda **{x}: {body})(k={t})"
            if r == "param-kwonly":
                return f"(lambda *, {x}: {body})({x}={t})"
            if r == "param-posonly":
                return f"(lambda {x}, /: {body})({t})"
            return f"(lambda: {body})()"
        if r == "target":
            return f"[{body} for {x} in [{t}]]"
        if r == "iter-read":
            return f"[{body} for _i{sid} in [{x}]]"
        if r == "iter-target":
            return f"[{body} for {x} in [{x}]]"      # the iterable reads the enclosing variable, the target is the comprehension's
        return f"[{body} for _i{sid} in [0]]"


def render(tree, names=("x",)):
    """tree: module Node.  With several names the same tree is rendered once per name and the bodies are interleaved by
    nesting (simplest sound composition: separate top-level copies share nothing but the module scope)."""
    r = Render(names[0])
    lines = r.stmts(tree)
    return HELPER + "\n".join(lines) + "\n"


def child_kinds(kind):
    return STMT_KINDS + EXPR_KINDS if kind in ("module", "function", "class") else EXPR_KINDS


CLASSREF = ("classref-read", "classref-nonlocal-assign", "classref-nonlocal-aug")


def roles_of(kind, parent):
    """the __class__ roles only make sense for methods (a function directly in a class body); a function nested deeper
    that mentions __class__ is refused by the converter (AssertionError) - outside the supported fragment"""
    if kind == "function" and parent != "class":
        return tuple(r for r in ROLES[kind] if r not in CLASSREF)
    return ROLES[kind]


def enum_trees(kind, depth, max_children, parent=None):
    """all scope trees rooted at `kind` with at most `depth` further levels"""
    for role in roles_of(kind, parent):
        if depth == 0:
            yield Node(kind, role)
            continue
        yield Node(kind, role)
        subs = []
        for ck in child_kinds(kind):
            subs.append(list(enum_trees(ck, depth - 1, max_children, kind)))
        flat = [t for s in subs for t in s]
        for c in flat:
            yield Node(kind, role, [c])
        if max_children >= 2:
            for a, b in itertools.product(flat, repeat=2):
                yield Node(kind, role, [a, b])


def method_trees():
    """module > function > class > method that mentions __class__ before it uses the name (> optional lambda / comprehension)"""
    for r0 in ("none", "assign"):
        for r1 in ROLES["function"]:
            for r2 in ("none", "assign", "read", "late-assign", "nonlocal-read", "global-read"):
                for r3 in ("classref-read", "classref-nonlocal-assign", "classref-nonlocal-aug"):
                    for kid in (None, Node("lambda", "read"), Node("comp", "read"), Node("function", "read"),
                                Node("function", "nonlocal-assign")):
                        m = Node("function", r3, [kid] if kid else [])
                        yield Node("module", r0, [Node("function", r1, [Node("class", r2, [m])])])


def binder_trees():
    """an expression scope (lambda / comprehension) that BINDS the name - through every kind of parameter or target - below a
    function that owns a variable of the same name in every storage form (plain local, captured by a sibling, free in the
    function between, unknown to the function / class between)"""
    inner = [Node("lambda", r) for r in ROLES["lambda"] if r.startswith("param")] + \
            [Node("comp", r) for r in ("target", "iter-target", "walrus")]
    for r0 in ("none", "assign"):
        for owner in ("assign", "param", "param-star", "param-kwstar", "param-kwonly", "for", "def"):
            for b in inner:
                def copy():
                    return Node(b.kind, b.role, [Node("lambda", "read")] if b.role != "walrus" else [])
                yield Node("module", r0, [Node("function", owner, [copy()])])
                yield Node("module", r0, [Node("function", owner, [Node("function", "read"), copy()])])
                yield Node("module", r0, [Node("function", owner, [copy(), Node("function", "nonlocal-assign")])])
                for mid in ("read", "nonlocal-read", "nonlocal-assign", "none"):
                    yield Node("module", r0, [Node("function", owner, [Node("function", mid, [copy()])])])
                    yield Node("module", r0, [Node("function", owner, [Node("function", mid, [Node("function", "none", [copy()])])])])
                for mid in ("none", "read", "assign"):
                    yield Node("module", r0, [Node("function", owner, [Node("class", mid, [copy()])])])


def chain_trees():
    """a reader several function levels below the function that OWNS a same-named variable, the functions in between being
    silent about the name (or only some of them mentioning it): the reader declares the name global (read / assign / augment),
    reads it as a free variable, rebinds it through nonlocal, or is a class body / a lambda / a comprehension reading it"""
    readers = [lambda: Node("function", "global-read"), lambda: Node("function", "global-assign"),
               lambda: Node("function", "read"), lambda: Node("function", "nonlocal-assign"), lambda: Node("function", "nonlocal-aug"),
               lambda: Node("class", "global-read"), lambda: Node("class", "read"), lambda: Node("class", "assign"),
               lambda: Node("function", "none", [Node("lambda", "read")]), lambda: Node("function", "none", [Node("comp", "read")]),
               lambda: Node("function", "global-read", [Node("lambda", "read")]),
               lambda: Node("function", "none", [Node("comp", "iter-read")]),
               lambda: Node("function", "none", [Node("lambda", "none", [Node("comp", "read")])])]
    for r0 in ("assign", "none"):
        for owner in ("assign", "param", "for", "param-default", "param-kwonly"):
            for mids in (("none",), ("none", "none"), ("read", "none"), ("none", "read"), ("none", "none", "none"),
                         # a function in between DECLARES the name global: below it the name means the module's variable again
                         ("global-read",), ("global-assign",), ("global-read", "none")):
                for mk in readers:
                    t = mk()
                    for m in reversed(mids):
                        t = Node("function", m, [t])
                    yield Node("module", r0, [Node("function", owner, [t])])
                    # the owner sits in a class body's method position: module > class > method(owner) > ...
                    if owner in ("assign", "param") and len(mids) <= 2:
                        t2 = mk()
                        for m in reversed(mids):
                            t2 = Node("function", m, [t2])
                        yield Node("module", r0, [Node("class", "none", [Node("function", owner, [t2])])])


def has_kind(t, kind):
    return t.kind == kind or any(has_kind(c, kind) for c in t.children)


def random_tree(rng, kind="module", depth=4, max_children=2, parent=None):
    role = rng.choice(roles_of(kind, parent))
    kids = []
    if depth > 0:
        for _ in range(rng.choice([0, 1, 1, 2][: max_children + 2])):
            kids.append(random_tree(rng, rng.choice(child_kinds(kind)), depth - 1, max_children, kind))
    return Node(kind, role, kids)


def accepted(src):
    """CPython accepts the program and it runs without exception"""
    import contextlib
    import io
    try:
        code = compile(src, "<scope>", "exec")
    except SyntaxError:
        return False
    buf = io.StringIO()
    try:
        with contextlib.redirect_stdout(buf):
            exec(code, {"__name__": "__main__"})
    except BaseException:
        return False
    return True
