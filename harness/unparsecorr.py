"""Correspondence between Unparse.v and the real expr_unparse: equality of output strings."""
import ast
import sys

from harness import common, sexp


def real_unparse(e):
    import oneliner
    try:
        return ("ok", oneliner.expr_unparse(e))
    except RecursionError:
        return ("err", "RecursionError")
    except Exception as ex:
        return ("err", type(ex).__name__)


def compare(exprs):
    """exprs: list of ast.expr. Returns (diffs, stats, texts) where texts[i] is the real output or None."""
    lines, idx, reals = [], [], []
    stats = {"ok": 0, "err": 0, "skipped": 0}
    texts = [None] * len(exprs)
    for i, e in enumerate(exprs):
        try:
            line = "(unparse %s)" % sexp.expr(e)
        except (sexp.Unserialisable, RecursionError):
            stats["skipped"] += 1
            continue
        r = real_unparse(e)
        if r[0] == "ok":
            texts[i] = r[1]
        lines.append(line)
        idx.append(i)
        reals.append(r)
    answers = common.model_eval(lines)
    diffs = []
    for i, r, a in zip(idx, reals, answers):
        stats[r[0]] += 1
        m = common.decode_cps(a)
        if r[0] == "ok":
            if m != r[1]:
                diffs.append({"expr": ast.dump(exprs[i])[:1500], "real": r[1][:600], "model": (m if m is not None else a)[:600]})
        # the model is total; an exception of the real unparser (e.g. f-string backslash rule on old hosts) is not modelled
    return diffs, stats, texts


def strip_ctx(d):
    import re
    # empty text parts of an f-string carry nothing (CPython 3.12 itself adds one to a format spec when adjacent
    # f-string literals are concatenated)
    d = re.sub(r", Constant\(value=''\)(?=[,\]])", "", d)
    d = re.sub(r"\[Constant\(value=''\), ", "[", d)
    d = re.sub(r"values=\[Constant\(value=''\)\]", "values=[]", d)
    return re.sub(r", ctx=(Load|Store|Del)\(\)|ctx=(Load|Store|Del)\(\), |ctx=(Load|Store|Del)\(\)", "", d)


def roundtrip_ok(e, text):
    """the direct oracle of C03/C04: the text parses back (eval mode) to a structurally identical tree, on one line"""
    if "\n" in text or "\r" in text:
        return False, "line break in output"
    try:
        back = ast.parse(text, mode="eval").body
    except (SyntaxError, ValueError) as ex:
        return False, f"does not parse: {type(ex).__name__}: {ex}"
    except RecursionError:
        return True, "skipped (parser recursion)"
    a, b = strip_ctx(ast.dump(e)), strip_ctx(ast.dump(back))
    if a != b:
        return False, f"tree differs: {a[:300]} -> {b[:300]}"
    return True, ""


# ---------------------------------------------------------------------------------------------
# well-formedness: the trees CPython's parser can produce (the domain of the round-trip property)

def wf_expr(e, in_joined=False, in_spec=False, top=True):
    """Python mirror of the Coq predicate wf_expr (kept in sync by hand; both are validated on parsed sources)."""
    t = type(e).__name__
    ch = lambda x, **kw: wf_expr(x, top=False, **kw)
    if t == "Constant":
        v = e.value
        if isinstance(v, bool) or v is None or v is Ellipsis or isinstance(v, (str, bytes)):
            return True
        if isinstance(v, int):
            return v >= 0
        if isinstance(v, float):
            return v == v and v >= 0 and str(v)[0] != "-"
        if isinstance(v, complex):
            return v.real == 0 and str(v.real)[0] != "-" and v.imag == v.imag and v.imag >= 0 and str(v.imag)[0] != "-"
        return False
    if t == "JoinedStr":
        prev_const = False
        for v in e.values:
            if isinstance(v, ast.Constant):
                if not isinstance(v.value, str) or v.value == "" or prev_const:
                    return False
                if in_spec and ("{" in v.value or "}" in v.value):
                    return False
                prev_const = True
            elif isinstance(v, ast.FormattedValue):
                prev_const = False
                if not ch(v.value):
                    return False
                if v.conversion not in (-1, 114, 115, 97):
                    return False
                if v.format_spec is not None:
                    if not isinstance(v.format_spec, ast.JoinedStr) or not wf_expr(v.format_spec, in_spec=True, top=False):
                        return False
            else:
                return False
        return True
    if t == "FormattedValue":
        return False   # only inside JoinedStr
    if t in ("Slice", "Starred"):
        return False   # only in the positions handled by their parents
    if t == "Subscript":
        s = e.slice
        if isinstance(s, ast.Slice):
            ok = all(x is None or ch(x) for x in (s.lower, s.upper, s.step))
        elif isinstance(s, ast.Tuple):
            ok = all((all(y is None or ch(y) for y in (x.lower, x.upper, x.step)) if isinstance(x, ast.Slice)
                      else (ch(x.value) if isinstance(x, ast.Starred) else ch(x))) for x in s.elts)
        else:
            ok = ch(s)
        return ok and ch(e.value)
    if t in ("List", "Tuple", "Set"):
        if t == "Set" and not e.elts:
            return False
        return all(ch(x.value) if isinstance(x, ast.Starred) else ch(x) for x in e.elts)
    if t == "Call":
        return ch(e.func) and all(ch(x.value) if isinstance(x, ast.Starred) else ch(x) for x in e.args) \
            and all(ch(k.value) for k in e.keywords)
    if t == "BoolOp":
        return len(e.values) >= 2 and all(ch(x) for x in e.values)
    if t == "Compare":
        return len(e.ops) == len(e.comparators) >= 1 and ch(e.left) and all(ch(x) for x in e.comparators)
    if t == "Dict":
        return len(e.keys) == len(e.values) and all(k is None or ch(k) for k in e.keys) and all(ch(v) for v in e.values)
    if t == "NamedExpr":
        return isinstance(e.target, ast.Name) and ch(e.value)
    if t == "Lambda":
        a = e.args
        return (len(a.defaults) <= len(a.posonlyargs) + len(a.args) and len(a.kw_defaults) == len(a.kwonlyargs)
                and all(ch(d) for d in a.defaults) and all(d is None or ch(d) for d in a.kw_defaults) and ch(e.body))
    if t in ("ListComp", "SetComp", "GeneratorExp", "DictComp"):
        if not e.generators:
            return False
        for g in e.generators:
            if not (ch(g.iter) and all(ch(i) for i in g.ifs) and _wf_target(g.target)):
                return False
        return (ch(e.key) and ch(e.value)) if t == "DictComp" else ch(e.elt)
    for f in ast.iter_child_nodes(e):
        if isinstance(f, ast.expr) and not ch(f):
            return False
    return True


def _wf_target(t):
    if isinstance(t, (ast.Tuple, ast.List)):
        return all(_wf_target(x.value if isinstance(x, ast.Starred) else x) for x in t.elts)
    return wf_expr(t, top=False)
