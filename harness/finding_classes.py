"""Decidable input classes of the known findings (DESIGN.md 3.6). A failing input is suppressed only if it is in a listed
class AND fails in the way the finding describes."""
import ast


def walrus_in_loop_header(src):
    """K-walrus-loop-header: an assignment expression inside a `while` test or a `for` iterable."""
    try:
        tree = ast.parse(src)
    except SyntaxError:
        return False
    for n in ast.walk(tree):
        part = None
        if isinstance(n, ast.While):
            part = n.test
        elif isinstance(n, ast.For):
            part = n.iter
        if part is not None and any(isinstance(m, ast.NamedExpr) for m in ast.walk(part)):
            return True
    return False


CLASSES = {"walrus-in-loop-header": walrus_in_loop_header}
