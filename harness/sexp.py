"""Serialise Python `ast` / `symtable` objects to the s-expression format of coq/theories/Sexp.v.

The same serialiser is applied to the *input* handed to a Coq model and to the *output* of the
real implementation, so that "model output == implementation output" is string equality.
"""
import ast
import re

_BINOPS = {"Add", "Sub", "Mult", "MatMult", "Div", "Mod", "Pow", "LShift", "RShift", "BitOr",
           "BitXor", "BitAnd", "FloorDiv"}


class Unserialisable(Exception):
    pass


def ident(s):
    if s is None:
        raise Unserialisable("None identifier")
    if not isinstance(s, str) or re.search(r"[\s()]", s):
        raise Unserialisable(f"identifier {s!r}")
    return "'" + s


def opt(f, x):
    return "()" if x is None else "(" + f(x) + ")"


def lst(f, xs):
    return "(" + " ".join(f(x) for x in xs) + ")"


def cps(s):
    return "(" + " ".join(str(ord(c)) for c in s) + ")"


def const(v):
    if v is None:
        return "(None)"
    if v is True:
        return "(True)"
    if v is False:
        return "(False)"
    if v is Ellipsis:
        return "(Ellipsis)"
    if isinstance(v, int):
        return f"(int {v})"
    if isinstance(v, float):
        return f"(float {cps(repr(v))})"
    if isinstance(v, complex):
        return f"(complex {cps(repr(v))})"
    if isinstance(v, str):
        return f"(str {cps(v)})"
    if isinstance(v, bytes):
        return f"(bytes {cps(repr(v))})"
    raise Unserialisable(f"constant {type(v).__name__}")


def _gens(gs):
    return lst(lambda g: f"({expr(g.target)} {expr(g.iter)} {lst(expr, g.ifs)} {1 if g.is_async else 0})", gs)


def _kws(kws):
    return lst(lambda k: f"({opt(ident, k.arg)} {expr(k.value)})", kws)


def expr(n):
    """Iteration would be safer for very deep trees; callers raise the recursion limit."""
    t = type(n).__name__
    if t == "Name":
        return f"(Name {ident(n.id)})"
    if t == "Constant":
        return f"(Constant {const(n.value)})"
    if t == "JoinedStr":
        return f"(JoinedStr {lst(expr, n.values)})"
    if t == "FormattedValue":
        return f"(FormattedValue {expr(n.value)} {n.conversion} {opt(expr, n.format_spec)})"
    if t == "Starred":
        return f"(Starred {expr(n.value)})"
    if t == "BinOp":
        return f"(BinOp {expr(n.left)} {type(n.op).__name__} {expr(n.right)})"
    if t == "BoolOp":
        return f"(BoolOp {type(n.op).__name__} {lst(expr, n.values)})"
    if t == "UnaryOp":
        return f"(UnaryOp {type(n.op).__name__} {expr(n.operand)})"
    if t in ("List", "Tuple", "Set"):
        return f"({t} {lst(expr, n.elts)})"
    if t == "Dict":
        return f"(Dict {lst(lambda k: opt(expr, k), n.keys)} {lst(expr, n.values)})"
    if t == "Compare":
        return f"(Compare {expr(n.left)} {lst(lambda o: type(o).__name__, n.ops)} {lst(expr, n.comparators)})"
    if t == "Attribute":
        return f"(Attribute {expr(n.value)} {ident(n.attr)})"
    if t == "Subscript":
        sl = n.slice
        if type(sl).__name__ == "Index":  # pragma: no cover (3.8 only)
            sl = sl.value
        return f"(Subscript {expr(n.value)} {expr(sl)})"
    if t == "Slice":
        return f"(Slice {opt(expr, n.lower)} {opt(expr, n.upper)} {opt(expr, n.step)})"
    if t == "Call":
        return f"(Call {expr(n.func)} {lst(expr, n.args)} {_kws(n.keywords)})"
    if t == "NamedExpr":
        if not isinstance(n.target, ast.Name):
            raise Unserialisable("NamedExpr target")
        return f"(NamedExpr {ident(n.target.id)} {expr(n.value)})"
    if t == "Lambda":
        a = n.args
        return ("(Lambda " + lst(lambda x: ident(x.arg), a.posonlyargs) + " " + lst(lambda x: ident(x.arg), a.args)
                + " " + opt(lambda x: ident(x.arg), a.vararg) + " " + lst(lambda x: ident(x.arg), a.kwonlyargs)
                + " " + lst(lambda d: opt(expr, d), a.kw_defaults) + " " + opt(lambda x: ident(x.arg), a.kwarg)
                + " " + lst(expr, a.defaults) + " " + expr(n.body) + ")")
    if t in ("ListComp", "SetComp", "GeneratorExp"):
        return f"({t} {expr(n.elt)} {_gens(n.generators)})"
    if t == "DictComp":
        return f"(DictComp {expr(n.key)} {expr(n.value)} {_gens(n.generators)})"
    if t == "IfExp":
        return f"(IfExp {expr(n.test)} {expr(n.body)} {expr(n.orelse)})"
    if t == "Yield":
        return f"(Yield {opt(expr, n.value)})"
    if t == "YieldFrom":
        return f"(YieldFrom {expr(n.value)})"
    if t == "Await":
        return f"(Await {expr(n.value)})"
    return f"(Other {ident(t)})"


def arguments(a):
    return ("(" + lst(lambda x: ident(x.arg), a.posonlyargs) + " " + lst(lambda x: ident(x.arg), a.args)
            + " " + opt(lambda x: ident(x.arg), a.vararg) + " " + lst(lambda x: ident(x.arg), a.kwonlyargs)
            + " " + lst(lambda d: opt(expr, d), a.kw_defaults) + " " + opt(lambda x: ident(x.arg), a.kwarg)
            + " " + lst(expr, a.defaults) + ")")


def _alias(a):
    return f"({ident(a.name)} {opt(ident, a.asname)})"


def stmt(n):
    t = type(n).__name__
    if t == "Expr":
        return f"(Expr {expr(n.value)})"
    if t in ("If", "While"):
        return f"({t} {expr(n.test)} {block(n.body)} {block(n.orelse)})"
    if t == "For":
        return f"(For {expr(n.target)} {expr(n.iter)} {block(n.body)} {block(n.orelse)})"
    if t in ("Break", "Continue", "Pass"):
        return f"({t})"
    if t == "Assign":
        return f"(Assign {lst(expr, n.targets)} {expr(n.value)})"
    if t == "AnnAssign":
        return f"(AnnAssign {expr(n.target)} {opt(expr, n.value)})"
    if t == "AugAssign":
        return f"(AugAssign {expr(n.target)} {type(n.op).__name__} {expr(n.value)})"
    if t == "FunctionDef":
        return (f"(FunctionDef {ident(n.name)} {n.lineno} {arguments(n.args)} {block(n.body)} "
                f"{lst(expr, n.decorator_list)})")
    if t == "Return":
        return f"(Return {opt(expr, n.value)})"
    if t in ("Global", "Nonlocal"):
        return f"({t} {lst(ident, n.names)})"
    if t == "ClassDef":
        return (f"(ClassDef {ident(n.name)} {n.lineno} {lst(expr, n.bases)} {_kws(n.keywords)} "
                f"{block(n.body)} {lst(expr, n.decorator_list)})")
    if t == "Import":
        return f"(Import {lst(_alias, n.names)})"
    if t == "ImportFrom":
        return f"(ImportFrom {opt(ident, n.module)} {lst(_alias, n.names)} {n.level})"
    return f"(Unsupported {ident(t)})"


def block(b):
    return lst(stmt, b)


# ---------------------------------------------------------------------------------------------
# symtable

def _is_function(t):
    return t.get_type() == "function" or str(t.get_type()).endswith("FUNCTION")


def _is_class(t):
    return t.get_type() == "class" or str(t.get_type()).endswith("CLASS")


def symtab(t):
    """(kind name lineno (symbols) (frees) (nonlocals) (parameters) (methods) (children))
    symbol = (name assigned parameter global declared_global nonlocal free local)"""
    if _is_function(t):
        kind = "function"
    elif _is_class(t):
        kind = "class"
    elif t.get_type() == "module" or str(t.get_type()).endswith("MODULE"):
        kind = "module"
    else:
        kind = "other"
    b = lambda x: "1" if x else "0"
    syms = lst(lambda s: f"({ident(s.get_name())} {b(s.is_assigned())} {b(s.is_parameter())} {b(s.is_global())} "
                         f"{b(s.is_declared_global())} {b(s.is_nonlocal())} {b(s.is_free())} {b(s.is_local())})", t.get_symbols())
    frees = lst(ident, t.get_frees()) if kind == "function" else "()"
    nonlocals = lst(ident, t.get_nonlocals()) if kind == "function" else "()"
    params = lst(ident, t.get_parameters()) if kind == "function" else "()"
    if kind == "class":
        import warnings
        with warnings.catch_warnings():
            warnings.simplefilter("ignore")
            methods = lst(ident, t.get_methods())
    else:
        methods = "()"
    return (f"({kind} {ident(t.get_name())} {t.get_lineno()} {syms} {frees} {nonlocals} {params} {methods} "
            f"{lst(symtab, t.get_children())})")


# ---------------------------------------------------------------------------------------------
# canonical renaming of __ol_ temporaries

_OL_RE = re.compile(r"__ol_(break|interrupt|it|for|while|key|value|assign|augobj|augass|sllice|retv|ret|nonlocal|classnsp|loader|mod|hook|bases|kwds)_([a-z]{10}|[0-9][0-9_]*)(?![A-Za-z0-9_])")


def canon_ol(text):
    """Rename every `__ol_<kind>_<suffix>` by order of first occurrence in `text`."""
    seen = {}

    def rep(m):
        k = m.group(0)
        if k not in seen:
            seen[k] = f"__ol_{m.group(1)}_#{len(seen)}"
        return seen[k]

    return _OL_RE.sub(rep, text)


# ---------------------------------------------------------------------------------------------
# reader for model answers

def read(s):
    """Parse one s-expression into nested Python lists of strings."""
    stack = [[]]
    cur = []
    for ch in s:
        if ch in "() \n\t":
            if cur:
                stack[-1].append("".join(cur))
                cur = []
            if ch == "(":
                stack.append([])
            elif ch == ")":
                top = stack.pop()
                stack[-1].append(top)
        else:
            cur.append(ch)
    if cur:
        stack[-1].append("".join(cur))
    if len(stack) != 1 or len(stack[0]) != 1:
        raise ValueError("bad s-expression: " + s[:100])
    return stack[0][0]
