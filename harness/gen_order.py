"""Random probe programs for C07: every leaf is a probe p(k); every operation on a probe's value is logged with its operand
ids, so the LOG is the full order of evaluations AND operations.  All randomness comes from the rng passed in."""

PRELUDE = '''
LOG = []
def _k(x):
    return getattr(x, 'k', type(x).__name__) if not isinstance(x, (int, str, tuple, slice)) else (
        tuple(_k(i) for i in x) if isinstance(x, tuple) else (('slice', _k(x.start), _k(x.stop), _k(x.step)) if isinstance(x, slice) else x))
class V:
    def __init__(self, k):
        object.__setattr__(self, 'k', k); object.__setattr__(self, 'd', {})
    def _n(self, op, *o):
        ks = tuple(_k(x) for x in o)
        LOG.append((op, self.k) + ks)
        return V((self.k * 31 + sum(hash(repr(x)) % 1009 for x in ks) * 17 + len(op)) % 9973)
    def __bool__(self):
        LOG.append(('bool', self.k)); return self.k % 2 == 1
    def __hash__(self): return self.k
    def __iter__(self):
        LOG.append(('iter', self.k)); return iter([V(self.k * 2 + 1001), V(self.k * 2 + 1002)])
    def __contains__(self, o):
        LOG.append(('contains', self.k, _k(o))); return (self.k + _k(o)) % 2 == 0 if isinstance(_k(o), int) else False
    def __call__(self, *a, **kw):
        LOG.append(('call', self.k, tuple(_k(x) for x in a), tuple((n, _k(v)) for n, v in kw.items())))
        return V((self.k * 7 + len(a) + 3 * len(kw)) % 9973)
    def __getattr__(self, n):
        if n.startswith('__'): return object.__getattribute__(self, n)
        if n in self.d: LOG.append(('getattr*', self.k, n)); return self.d[n]
        LOG.append(('getattr', self.k, n)); return V((self.k * 13 + len(n)) % 9973)
    def __setattr__(self, n, v):
        LOG.append(('setattr', self.k, n, _k(v))); self.d[n] = v
    def __getitem__(self, i): return self._n('getitem', i)
    def __setitem__(self, i, v): LOG.append(('setitem', self.k, _k(i), _k(v)))
    def __format__(self, spec):
        LOG.append(('format', self.k, spec)); return '<%s>' % self.k
    def __repr__(self):
        LOG.append(('repr', self.k)); return 'V(%s)' % self.k
    def __str__(self):
        LOG.append(('str', self.k)); return 'v%s' % self.k
    def __index__(self): return self.k
for _op in ('add sub mul matmul truediv floordiv mod pow lshift rshift and or xor lt le gt ge eq ne '
            'iadd isub imul imatmul itruediv ifloordiv imod ipow ilshift irshift iand ior ixor').split():
    setattr(V, '__%s__' % _op, (lambda op: lambda s, o: s._n(op, o))(_op))
for _op in ('neg', 'pos', 'invert'):
    setattr(V, '__%s__' % _op, (lambda op: lambda s: s._n(op))(_op))
def p(k):
    LOG.append(('eval', k))
    return V(k)
def _s(o):
    if isinstance(o, (list, tuple)): return [_s(i) for i in o]
    if isinstance(o, (set, frozenset)): return sorted((_s(i) for i in o), key=repr)
    if isinstance(o, dict): return [(_s(a), _s(b)) for a, b in o.items()]
    return _k(o)
def q(o):
    s = _s(o)
    LOG.append(('q', s))
    return V(hash(repr(s)) % 9973)
class B1:
    def __init_subclass__(cls, **kw): super().__init_subclass__()
class B2:
    pass
def pb(k):
    LOG.append(('eval', k))
    return B1 if k % 2 else B2
x = V(5001); y = V(5002); z = V(5003); w = V(5004)
'''

BINOPS = ["+", "-", "*", "@", "/", "//", "%", "**", "<<", ">>", "&", "|", "^"]
CMPOPS = ["<", "<=", ">", ">=", "==", "!=", "in", "not in", "is", "is not"]
UNOPS = ["-", "+", "~", "not "]


class Gen:
    def __init__(self, rng):
        self.rng = rng
        self.k = 0
        self.names = ["x", "y", "z"]
        self.tmp = 0
        self.shapes = {}

    def note(self, s):
        self.shapes[s] = self.shapes.get(s, 0) + 1

    def probe(self):
        self.k += 1
        return f"p({self.k})"

    def leaf(self):
        if self.rng.random() < 0.75:
            return self.probe()
        return self.rng.choice(self.names)

    def expr(self, d):
        r = self.rng
        if d <= 0 or r.random() < 0.22:
            return self.leaf()
        c = r.choice(["bin", "bin", "un", "bool", "cmp", "ifexp", "call", "call", "attr", "sub", "sub", "list", "tuple", "set", "dict",
                      "comp", "lambda", "fstr", "gen", "dictcomp", "star"])
        self.note(c)
        e = lambda: self.expr(d - 1)
        if c == "bin":
            return f"({e()} {r.choice(BINOPS)} {e()})"
        if c == "un":
            op = r.choice(UNOPS)
            return f"q(not {e()})" if op == "not " else f"({op}{e()})"
        if c == "bool":
            op = r.choice([" and ", " or "])
            return "(" + op.join(e() for _ in range(r.randint(2, 3))) + ")"
        if c == "cmp":
            s = e()
            for _ in range(r.randint(1, 3)):
                s += f" {r.choice(CMPOPS)} {e()}"
            return f"q({s})"
        if c == "ifexp":
            return f"({e()} if {e()} else {e()})"
        if c == "call":
            parts = [e() for _ in range(r.randint(0, 2))]
            if r.random() < 0.3:
                parts.append("*" + e())
            if r.random() < 0.3:
                parts.append(e())
            for i in range(r.randint(0, 2)):
                parts.append(f"k{i}={e()}")
            if r.random() < 0.25:
                parts.append("**{'z%d': %s}" % (self.k, e()))
            return f"{e()}({', '.join(parts)})"
        if c == "attr":
            return f"{e()}.{r.choice(['a', 'b', 'c'])}"
        if c == "sub":
            return f"{e()}[{self.index(d - 1)}]"
        if c == "list":
            return "q([" + ", ".join(self.elt(d - 1) for _ in range(r.randint(0, 3))) + "])"
        if c == "tuple":
            n = r.randint(0, 3)
            return "q((" + ", ".join(self.elt(d - 1) for _ in range(n)) + ("," if n == 1 else "") + "))"
        if c == "set":
            return "q({" + ", ".join(self.elt(d - 1) for _ in range(r.randint(1, 3))) + "})"
        if c == "dict":
            items = [f"{e()}: {e()}" for _ in range(r.randint(0, 2))]
            if r.random() < 0.3:
                items.append("**{%s: %s}" % (e(), e()))
            return "q({" + ", ".join(items) + "})"
        if c == "comp":
            v = self.fresh()
            cond = f" if {e()}" if r.random() < 0.5 else ""
            second = ""
            if r.random() < 0.3:
                v2 = self.fresh()
                second = f" for {v2} in {v}"
            return f"q([{e()} + {v} for {v} in {e()}{second}{cond}])"
        if c == "gen":
            v = self.fresh()
            return f"q(list({e()} for {v} in {e()}))"
        if c == "dictcomp":
            v = self.fresh()
            return "q({%s: %s for %s in %s})" % (e(), e(), v, e())
        if c == "lambda":
            a = self.fresh()
            b = self.fresh()
            return f"(lambda {a}={e()}, *, {b}={e()}: {e()} + {a})()"
        if c == "fstr":
            conv = r.choice(["", "!r", "!s", ""])
            inner = self.expr(0)
            spec = r.choice(["", ":>4", ":>{" + self.expr(0) + ".k}"])
            return "q(f'a{" + inner + conv + spec + "}b{" + self.expr(0) + "}')"
        if c == "star":
            return f"q([*{e()}, {e()}])"
        raise AssertionError(c)

    def elt(self, d):
        if self.rng.random() < 0.15:
            return "*" + self.expr(d)
        return self.expr(d)

    def index(self, d):
        r = self.rng
        c = r.random()
        e = lambda: self.expr(d)
        if c < 0.5:
            return e()
        if c < 0.75:
            self.note("slice")
            return f"{e() if r.random() < 0.7 else ''}:{e() if r.random() < 0.7 else ''}" + (f":{e()}" if r.random() < 0.3 else "")
        self.note("tuple-index")
        return f"{e()}, {e() if r.random() < 0.5 else e() + ':' + e()}"

    def fresh(self):
        self.tmp += 1
        return f"t{self.tmp}"

    def target(self, d, allow_pattern=True):
        r = self.rng
        c = r.random()
        if c < 0.3:
            n = r.choice(["x", "y", "z", "w"])
            if n not in self.names:
                self.names.append(n)
            return n
        if c < 0.55:
            return f"{self.expr(d)}.{r.choice(['a', 'b'])}"
        if c < 0.8 or not allow_pattern:
            return f"{self.expr(d)}[{self.index(d)}]"
        self.note("pattern")
        if r.random() < 0.5:
            return f"({self.target(d, False)}, {self.target(d, False)})"
        return f"[{self.target(d, False)}, *{self.target(d, False)}]"

    def block(self, d, ind, in_loop=False, in_func=False):
        out = []
        for _ in range(self.rng.randint(1, 3)):
            out += self.stmt(d, ind, in_loop, in_func)
        return out

    def stmt(self, d, ind, in_loop=False, in_func=False):
        r = self.rng
        pad = "    " * ind
        kinds = ["expr", "assign", "assign", "aug", "aug"]
        if d > 0:
            kinds += ["if", "for", "while", "def", "class"]
        if in_loop:
            kinds += ["brk"]
        if in_func:
            kinds += ["ret"]
        c = r.choice(kinds)
        self.note("s:" + c)
        ed = 2
        if c == "expr":
            return [pad + self.expr(ed)]
        if c == "assign":
            v = self.expr(ed)
            ts = [self.target(1) for _ in range(r.randint(1, 3))]
            return [pad + " = ".join(ts + [v])]
        if c == "aug":
            t = self.target(1, allow_pattern=False)
            return [pad + f"{t} {r.choice(BINOPS)}= {self.expr(ed)}"]
        if c == "if":
            out = [pad + f"if {self.expr(ed)}:"] + self.block(d - 1, ind + 1, in_loop, in_func)
            if r.random() < 0.4:
                out += [pad + f"elif {self.expr(1)}:"] + self.block(d - 1, ind + 1, in_loop, in_func)
            if r.random() < 0.5:
                out += [pad + "else:"] + self.block(d - 1, ind + 1, in_loop, in_func)
            return out
        if c == "for":
            t = self.fresh() if r.random() < 0.7 else r.choice([f"{self.expr(0)}.a", f"{self.expr(0)}[{self.expr(0)}]"])
            out = [pad + f"for {t} in {self.expr(ed)}:"] + self.block(d - 1, ind + 1, True, in_func)
            if r.random() < 0.4:
                out += [pad + "else:"] + self.block(d - 1, ind + 1, in_loop, in_func)
            return out
        if c == "while":
            n = self.fresh()
            out = [pad + f"{n} = 0", pad + f"while {n} < 2 and {self.expr(1)}:", pad + f"    {n} += 1"] + self.block(d - 1, ind + 1, True, in_func)
            if r.random() < 0.4:
                out += [pad + "else:"] + self.block(d - 1, ind + 1, in_loop, in_func)
            return out
        if c == "brk":
            return [pad + f"if {self.expr(1)}:", pad + "    " + r.choice(["break", "continue"])]
        if c == "ret":
            return [pad + f"return {self.expr(ed)}"]
        if c == "def":
            f = self.fresh()
            a, b = self.fresh(), self.fresh()
            decs = [pad + f"@{self.expr(1)}" for _ in range(r.randint(0, 2))]
            saved = list(self.names)
            body = [pad + "    x, y, z, w = V(7001), V(7002), V(7003), V(7004)"] + self.block(d - 1, ind + 1, False, True)
            self.names = saved
            out = decs + [pad + f"def {f}({a}={self.expr(1)}, *, {b}={self.expr(1)}):"] + body
            if not decs:
                out.append(pad + f"{f}({self.expr(1)})")
            else:
                out.append(pad + f"{f}")
            return out
        if c == "class":
            self.k += 2
            kname = self.fresh().upper()
            bases = f"pb({self.k - 1})" + (f", pb({self.k})" if r.random() < 0.3 and (self.k - 1) % 2 != self.k % 2 else "")
            if r.random() < 0.4 and (self.k - 1) % 2 == 1 and ", pb" not in bases:
                bases += f", kw={self.expr(1)}"
            saved = list(self.names)
            body = []
            for _ in range(r.randint(1, 2)):
                body.append(pad + "    " + f"{r.choice(['m', 'n'])} = {self.expr(1)}")
            self.names = saved
            return [pad + f"class {kname}({bases}):"] + body
        raise AssertionError(c)


def program(rng, placement=None):
    g = Gen(rng)
    placement = placement or rng.choice(["module", "module", "function"])
    if placement == "module":
        lines = []
        for _ in range(rng.randint(1, 4)):
            lines += g.stmt(2, 0)
        body = "\n".join(lines)
    else:
        lines = []
        for _ in range(rng.randint(1, 4)):
            lines += g.stmt(2, 1, False, True)
        locals_init = "    x = V(6001); y = V(6002); z = V(6003); w = V(6004)\n"
        body = "def main():\n" + locals_init + "\n".join(lines) + "\nmain()"
    return body, g.shapes
