"""Run the differential oracle under the other installed CPython versions (the symbol tables and the compiler differ)."""
import glob
import json
import os
import subprocess

ROOT = "/root/.pyenv/versions"


def hosts():
    out = {}
    for d in sorted(glob.glob(os.path.join(ROOT, "3.*"))):
        exe = os.path.join(d, "bin", "python")
        if os.path.exists(exe):
            out[os.path.basename(d)] = exe
    return out


def run_on(exe, sources, triples, need_clean=True, timeout=1800):
    env = dict(os.environ, PYTHONPATH="/repo:/verif", PYTHONHASHSEED="0", PYTHONWARNINGS="ignore")
    p = subprocess.run([exe, "-W", "ignore", "/verif/harness/impl/host_worker.py"],
                       input=json.dumps({"sources": sources, "triples": [list(t) for t in triples], "need_clean": need_clean}),
                       capture_output=True, text=True, env=env, timeout=timeout)
    if p.returncode != 0:
        raise RuntimeError(f"host worker failed on {exe}: {p.stderr[-800:]}")
    data = json.loads(p.stdout)
    return data["version"], [[(tuple(tr), st, detail) for tr, st, detail in r] for r in data["results"]]


def convert_on(exe, sources, triples, timeout=1800):
    env = dict(os.environ, PYTHONPATH="/repo:/verif", PYTHONHASHSEED="0", PYTHONWARNINGS="ignore")
    p = subprocess.run([exe, "-W", "ignore", "/verif/harness/impl/host_worker.py"],
                       input=json.dumps({"mode": "convert", "sources": sources, "triples": [list(t) for t in triples]}),
                       capture_output=True, text=True, env=env, timeout=timeout)
    if p.returncode != 0:
        raise RuntimeError(f"host worker failed on {exe}: {p.stderr[-800:]}")
    return json.loads(p.stdout)["results"]


def run_pairs_on(exe, pairs, timeout=1800):
    env = dict(os.environ, PYTHONPATH="/verif", PYTHONHASHSEED="0", PYTHONWARNINGS="ignore")
    p = subprocess.run([exe, "-W", "ignore", "/verif/harness/impl/runtime_worker.py"],
                       input=json.dumps({"pairs": pairs}), capture_output=True, text=True, env=env, timeout=timeout)
    if p.returncode != 0:
        raise RuntimeError(f"runtime worker failed on {exe}: {p.stderr[-800:]}")
    return json.loads(p.stdout)["results"]
