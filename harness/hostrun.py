"""Run the differential oracle under the other installed CPython versions (the symbol tables and the compiler differ)."""
import glob
import json
import os
import subprocess

ROOT = "/root/.pyenv/versions"


def hosts():
    out = {}
    for d in sorted(glob.glob(os.path.join(ROOT, "3.*"))):
        exe = os.path.join(d, "bin", "python")
        if os.path.exists(exe):
            out[os.path.basename(d)] = exe
    return out


def run_on(exe, sources, triples, need_clean=True, timeout=1800):
    env = dict(os.environ, PYTHONPATH="/repo:/verif", PYTHONHASHSEED="0", PYTHONWARNINGS="ignore")
    p = subprocess.run([exe, "-W", "ignore", "/verif/harness/impl/host_worker.py"],
                       input=json.dumps({"sources": sources, "triples": [list(t) for t in triples], "need_clean": need_clean}),
                       capture_output=True, text=True, env=env, timeout=timeout)
    if p.returncode != 0:
        raise RuntimeError(f"host worker failed on {exe}: {p.stderr[-800:]}")
    data = json.loads(p.stdout)
    return data["version"], [[(tuple(tr), st, detail) for tr, st, detail in r] for r in data["results"]]


def convert_on(exe, sources, triples, timeout=1800):
    env = dict(os.environ, PYTHONPATH="/repo:/verif", PYTHONHASHSEED="0", PYTHONWARNINGS="ignore")
    p = subprocess.run([exe, "-W", "ignore", "/verif/harness/impl/host_worker.py"],
                       input=json.dumps({"mode": "convert", "sources": sources, "triples": [list(t) for t in triples]}),
                       capture_output=True, text=True, env=env, timeout=timeout)
    if p.returncode != 0:
        raise RuntimeError(f"host worker failed on {exe}: {p.stderr[-800:]}")
    return json.loads(p.stdout)["results"]


def run_pairs_on(exe, pairs, timeout=1800):
    env = dict(os.environ, PYTHONPATH="/verif", PYTHONHASHSEED="0", PYTHONWARNINGS="ignore")
    p = subprocess.run([exe, "-W", "ignore", "/verif/harness/impl/runtime_worker.py"],
                       input=json.dumps({"pairs": pairs}), capture_output=True, text=True, env=env, timeout=timeout)
    if p.returncode != 0:
        raise RuntimeError(f"runtime worker failed on {exe}: {p.stderr[-800:]}")
    return json.loads(p.stdout)["results"]


def pair_observe_on(exe, jobs, timeout=1800):
    """jobs = [(source, triple or None)]; result per job: [what the script does on that interpreter, what its conversion
    (made and run on that interpreter) does]; with triple None only the script is run"""
    env = dict(os.environ, PYTHONPATH="/repo:/verif", PYTHONHASHSEED="0", PYTHONWARNINGS="ignore")
    p = subprocess.run([exe, "-W", "ignore", "/verif/harness/impl/host_worker.py"],
                       input=json.dumps({"mode": "pair-observe", "jobs": [[s, None if t is None else list(t)] for s, t in jobs]}),
                       capture_output=True, text=True, env=env, timeout=timeout)
    if p.returncode != 0:
        raise RuntimeError(f"host worker failed on {exe}: {p.stderr[-800:]}")
    return json.loads(p.stdout)["results"]


PRE_709 = "3.11.7"


def pep709_source_defect(suspects, host_exe):
    """suspects = [(source, triple)] whose conversion behaves differently from the script on an interpreter with inlined
    comprehensions (3.12+, `host_exe`).  A suspect is attributed to that interpreter (CPython's PEP 709 implementation leaks
    / loses a comprehension variable in the SCRIPT) only if all of this is observed:
      - on CPython 3.11 the conversion made there behaves exactly like the script there,
      - the script itself behaves differently on `host_exe` than on 3.11 (it uses nothing version dependent),
      - the conversion made and run on `host_exe` does exactly what the script does on 3.11.
    Returns the set of attributed (source, triple)."""
    exe311 = hosts().get(PRE_709)
    if not exe311 or not suspects:
        return set()
    jobs = [(s, tuple(t)) for s, t in suspects]
    old = pair_observe_on(exe311, jobs)
    new = pair_observe_on(host_exe, jobs)
    out = set()
    for (s, t), (a311, b311), (a, b) in zip(jobs, old, new):
        if a311 is None or a is None or not isinstance(b, dict) or not isinstance(b311, dict):
            continue
        if a311 == b311 and a != a311 and b == a311:
            out.add((s, t))
    return out
