"""Class programs (C12): skeleton product and random bodies. Each program prints what the property observes."""
import itertools
import random

OBSERVE = '''
def _show(cls):
    members = {k: (v if not callable(v) and not isinstance(v, (staticmethod, classmethod, property)) else type(v).__name__)
               for k, v in vars(cls).items() if not (k.startswith('__') and k.endswith('__'))}
    print(cls.__name__, [c.__name__ for c in cls.__mro__], type(cls).__name__, members)
'''

BASE_DEFS = '''
class Meta(type):
    def __call__(cls, *a, **k):
        inst = super().__call__(*a, **k)
        inst.made_by = 'Meta'
        return inst
class A:
    def who(self): return 'A'
    def chain(self): return ['A']
class B(A):
    def who(self): return 'B'
    def chain(self): return ['B'] + super().chain()
class C(A):
    def chain(self): return ['C'] + super().chain()
class Reg:
    subs = []
    def __init_subclass__(cls, tag=None, **kw):
        super().__init_subclass__(**kw)
        Reg.subs.append((cls.__name__, tag))
def _hookdeco(f):
    def wrapped(*a, **k):
        return ('deco', f(*a, **k))
    return wrapped
def _seen(c):
    # what a class decorator can see of the class it is given: its finished members
    return sorted(k for k in vars(c) if not (k.startswith('__') and k.endswith('__')))
def deco1(c):
    c.deco = getattr(c, 'deco', []) + [('d1', _seen(c))]
    return c
def deco2(c):
    c.deco = getattr(c, 'deco', []) + [('d2', _seen(c))]
    return c
'''

BASES = ["", "A", "B", "B, C", "Reg", "A, Reg"]
MEMBERS = {
    "attr": ("x = 1\ny = x + 1", "print(K.x, K.y)"),
    "overwrite": ("x = 1\nx = 2\nz = 3\nx = 4", "print(K.x, list(k for k in vars(K) if not k.startswith('__')))"),
    "method": ("def m(self, a=2):\n    return (self.val(), a)\ndef val(self):\n    return 7", "print(K().m(), K().m(5))"),
    "static": ("@staticmethod\ndef s(a, b=1):\n    return a + b", "print(K.s(1), K().s(1, 2))"),
    "classm": ("@classmethod\ndef c(cls, a):\n    return (cls.__name__, a)", "print(K.c(1), K().c(2))"),
    "prop": ("def __init__(self):\n    self._p = 1\n@property\ndef p(self):\n    return self._p\n@p.setter\ndef p(self, v):\n    self._p = v * 2",
             "k = K()\nk.p = 5\nprint(k.p)"),
    "super0": ("def chain(self):\n    return ['K'] + super().chain()\ndef who(self):\n    return 'K>' + super().who()", "print(K().chain(), K().who())"),
    "super2": ("def chain(self):\n    return ['K'] + super(K, self).chain()", "print(K().chain())"),
    "classref": ("def me(self):\n    return __class__.__name__", "print(K().me())"),
    "flow": ("vals = []\nfor i in range(4):\n    if i == 2:\n        continue\n    vals.append(i)\nelse:\n    done = True\nwhile len(vals) > 2:\n    vals.pop()\n    if len(vals) == 1:\n        break",
             "print(K.vals, K.done)"),
    "nested": ("class Inner:\n    q = 5\n    def get(self):\n        return self.q\nr = Inner().get()", "print(K.r, K.Inner().get(), K.Inner.__name__)"),
    "cond": ("import sys\nif sys.version_info >= (3, 0):\n    def pick(self):\n        return 'new'\nelse:\n    def pick(self):\n        return 'old'", "print(K().pick())"),
    "dunder": ("def __init__(self, v=3):\n    self.v = v\ndef __repr__(self):\n    return f'K({self.v})'\ndef __eq__(self, o):\n    return self.v == o.v\ndef __len__(self):\n    return self.v",
               "print(K(), K(2) == K(2), len(K(4)))"),
    "lambda": ("f = lambda self: 11\ng = [i * 2 for i in range(3)]", "print(K().f(), K.g)"),
    "member-in-inner": ("base = [1, 2, 3]\nsquares = [x * x for x in base]\nwidths = {f: len(f) for f in ('a', 'bb')}\nscale = 3\n"
                        "times = lambda self, v, s=scale: v * s\ngen = list(b + 1 for b in base if b)\nfirst = {q for q in base}",
                        "print(K.squares, K.widths, K().times(2), K.gen, sorted(K.first))"),
    "kwdefault-member": ("SEP = '-'\nLIMIT = 3\ndef join(self, items, *, sep=SEP, limit=LIMIT):\n    return sep.join(items[:limit])\n@staticmethod\ndef tag(*, t=SEP * 2):\n    return t",
                         "print(K().join(['a', 'b', 'c', 'd']), K.tag(), sorted(K.join.__kwdefaults__.items()))"),
    # the two hooks type.__new__ makes class methods implicitly - when, and only when, the member is a plain function
    "hook-getitem": ("def __class_getitem__(cls, key):\n    return (cls.__name__, key)", "print(K[1], K['a'])"),
    "hook-getitem-cm": ("@classmethod\ndef __class_getitem__(cls, key):\n    return (cls.__name__, key)", "print(K[1], K['a'])"),
    "hook-getitem-deco": ("@_hookdeco\ndef __class_getitem__(cls, key):\n    return (cls.__name__, key)", "print(K[2])"),
    "hook-subclass": ("subs = []\ndef __init_subclass__(cls, **kw):\n    super().__init_subclass__(**kw)\n    cls.subs.append(cls.__name__)",
                      "class S1(K):\n    pass\nprint(K.subs, S1.subs)"),
    "hook-subclass-cm": ("subs = []\n@classmethod\ndef __init_subclass__(cls, **kw):\n    super().__init_subclass__(**kw)\n    cls.subs.append(cls.__name__)",
                         "class S1(K):\n    pass\nprint(K.subs, S1.subs)"),
    "hook-subclass-deco": ("subs = []\n@_hookdeco\ndef __init_subclass__(cls, **kw):\n    cls.subs.append(cls.__name__)",
                           "class S1(K):\n    pass\nprint(K.subs)"),
}
NEEDS_A = {"super0", "super2"}


def _ind(s, n=1):
    return "\n".join("    " * n + l for l in s.split("\n"))


def class_program(bases, meta, kws, ndeco, member, placement):
    body, use = MEMBERS[member]
    if member in NEEDS_A and not any(b in bases for b in ("A", "B", "C")):
        return None
    header = [b.strip() for b in bases.split(",") if b.strip()]
    if meta:
        header.append("metaclass=Meta")
    if kws:
        if "Reg" not in bases:
            return None
        header.append("tag='t1'")
    decos = "".join(f"@deco{i + 1}\n" for i in range(ndeco))
    cls = f"{decos}class K({', '.join(header)}):\n{_ind(body)}\n"
    tail = f"_show(K)\n{use}\nprint(getattr(K, 'deco', None), Reg.subs, getattr(K() if '{member}' != 'prop' else K(), 'made_by', None))\n"
    if placement == "module":
        prog = cls + tail
    elif placement == "function":
        prog = "def make():\n" + _ind(cls) + "\n    return K\nK = make()\n" + tail
    elif placement == "class":
        prog = "class Outer:\n" + _ind(cls) + "\nK = Outer.K\n" + tail
    else:
        raise ValueError(placement)
    return OBSERVE + BASE_DEFS + prog


def all_programs():
    for bases, meta, kws, ndeco, member, placement in itertools.product(
            BASES, (False, True), (False, True), (0, 1, 2), MEMBERS, ("module", "function", "class")):
        p = class_program(bases, meta, kws, ndeco, member, placement)
        if p is not None:
            yield (bases, meta, kws, ndeco, member, placement), p
