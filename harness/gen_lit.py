"""Literal and f-string expression trees (C04, C03)."""
import ast
import itertools
import random

SPECIAL = ["'", '"', "\\", "{", "}", "\n", "\r", "\t", "\x00", "\x7f", "\x85", "\xa0", "\xff", "a", " ",
           "Ā", " ", " ", "\ud800", "\udfff", "\U0001f600", "̀"]


def K(v):
    return ast.Constant(value=v)


def name(s):
    return ast.Name(id=s, ctx=ast.Load())


def fv(value, conv=-1, spec=None):
    return ast.FormattedValue(value=value, conversion=conv, format_spec=spec)


def js(*parts):
    vals = []
    for p in parts:
        vals.append(K(p) if isinstance(p, str) else p)
    return ast.JoinedStr(values=vals)


def single_codepoints(step=1):
    for cp in range(0, 0x300, step):
        yield chr(cp)
    for cp in (0x300, 0x3A9, 0x4F60, 0x2028, 0x2029, 0xD7FF, 0xD800, 0xDBFF, 0xDC00, 0xDFFF, 0xE000, 0xFFFD, 0xFFFF,
               0x10000, 0x1F600, 0xE0001, 0x10FFFF):
        yield chr(cp)


def short_strings(maxlen=4, alphabet=("'", '"', "\\", "{", "}", "\n", "a")):
    for n in range(0, maxlen + 1):
        for t in itertools.product(alphabet, repeat=n):
            yield "".join(t)


def string_contexts(s):
    """the same text as a plain constant, as f-string literal text, as format-spec text, nested in a field"""
    yield K(s)
    yield js(s, fv(name("x")))
    if s:
        yield js(fv(name("x"), -1, js(s)))
    yield js("a", fv(K(s)))
    yield ast.Dict(keys=[K(s)], values=[js(s)])
    yield js(fv(js(s, fv(K(s)))))


def numbers():
    vals = [0, 1, 7, 10 ** 30, 255, 0.0, 0.5, 1e22, 1e-7, 1.5e300, float("inf"), 3.14159, 1j, 2.5j, complex(0, float("inf")),
            True, False, None, Ellipsis, b"", b"ab'\"\\\n\x00\xff", b"\\x", 10 ** 400]
    for v in vals:
        yield K(v)
        yield ast.Attribute(value=K(v), attr="real", ctx=ast.Load())
        yield ast.BinOp(left=K(v), op=ast.Pow(), right=K(v))
        yield ast.UnaryOp(op=ast.USub(), operand=K(v))


CONVS = [-1, ord("r"), ord("s"), ord("a")]


def spec_shapes(depth):
    yield None
    yield js(">10")
    yield js(fv(name("w")))
    yield js(">", fv(name("w")), ".", fv(name("p")))
    yield js(fv(name("w")), "d")
    yield js(fv(ast.Subscript(value=ast.Dict(keys=[K(1)], values=[K(4)]), slice=K(1), ctx=ast.Load())))
    if depth > 0:
        yield js(fv(name("w"), ord("r"), js(">", fv(name("q")))))


def value_shapes(depth):
    yield name("x")
    yield K("s'\"{")
    yield ast.Dict(keys=[name("k")], values=[name("v")])
    yield ast.Set(elts=[name("e")])
    yield ast.Lambda(args=ast.arguments(posonlyargs=[], args=[], vararg=None, kwonlyargs=[], kw_defaults=[], kwarg=None, defaults=[]),
                     body=name("y"))
    yield ast.NamedExpr(target=ast.Name(id="t", ctx=ast.Store()), value=K(1))
    yield ast.IfExp(test=name("c"), body=K("a"), orelse=K("b"))
    yield ast.Compare(left=name("a"), ops=[ast.NotEq()], comparators=[name("b")])
    yield ast.Tuple(elts=[name("a"), name("b")], ctx=ast.Load())
    yield ast.Yield(value=None)
    # values whose text STARTS with a brace without being a display themselves (the field must not open with `{{`)
    d = ast.Dict(keys=[K(1)], values=[K("one")])
    st = ast.Set(elts=[name("e")])
    yield ast.Subscript(value=d, slice=name("x"), ctx=ast.Load())
    yield ast.Call(func=ast.Attribute(value=d, attr="get", ctx=ast.Load()), args=[name("k")], keywords=[])
    yield ast.BinOp(left=st, op=ast.BitOr(), right=name("s"))
    yield ast.Compare(left=st, ops=[ast.LtE()], comparators=[name("s")])
    yield ast.IfExp(test=name("c"), body=ast.Dict(keys=[], values=[]), orelse=name("e"))
    yield ast.BoolOp(op=ast.Or(), values=[ast.DictComp(key=name("i"), value=name("i"), generators=[
        ast.comprehension(target=ast.Name(id="i", ctx=ast.Store()), iter=name("r"), ifs=[], is_async=0)]), name("e")])
    if depth > 0:
        for inner in fstrings(depth - 1, limit=6):
            yield inner
        yield ast.Subscript(value=name("d"), slice=js("k", fv(name("i"))), ctx=ast.Load())


def fstrings(depth=2, limit=None):
    n = 0
    for conv in CONVS:
        for spec in spec_shapes(depth):
            for val in value_shapes(depth):
                yield js("a{", fv(val, conv, spec), "}b")
                n += 1
                if limit and n >= limit:
                    return
    yield js()
    yield js("")
    yield js("only text")
    yield js(fv(name("a")), fv(name("b")))


def random_literal(rng, depth=2):
    r = rng.random()
    if r < 0.35:
        return K("".join(rng.choice(SPECIAL) for _ in range(rng.randint(0, 6))))
    if r < 0.45:
        return rng.choice(list(numbers()))
    parts = []
    for _ in range(rng.randint(1, 4)):
        if rng.random() < 0.5:
            parts.append("".join(rng.choice(SPECIAL) for _ in range(rng.randint(0, 4))))
        else:
            val = random_literal(rng, depth - 1) if depth > 0 and rng.random() < 0.5 else name(rng.choice("xyz"))
            spec = None
            if rng.random() < 0.4:
                sp = []
                for _ in range(rng.randint(1, 2)):
                    sp.append(rng.choice([">", "10", ".3", "x", "{", "}", "'"]) if rng.random() < 0.6 else fv(name("w")))
                spec = js(*sp)
            parts.append(fv(val, rng.choice(CONVS), spec))
    # merge adjacent text parts the way the parser would
    merged = []
    for p in parts:
        if isinstance(p, str) and merged and isinstance(merged[-1], str):
            merged[-1] += p
        elif isinstance(p, str) and p == "":
            continue
        else:
            merged.append(p)
    return js(*merged)
