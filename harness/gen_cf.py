"""Control-flow skeleton programs (C05, C01 core): generation, instrumentation, execution.

A skeleton is a nested Python list structure:
  ["m", k] | ["pass"] | ["break"] | ["continue"] | ["return", k or None]
  ["if", k, body, orelse] | ["while", k, body, orelse] | ["for", k, body, orelse]
placed at module level, in a function body (called once) or in a class body.
Probes: m(k) marker, c(k) condition (consumes one schedule bit), it(k) iterable whose __next__ consumes one
schedule bit per call (False = exhausted).
"""
import itertools
import random


def render(block, indent=0, loopvar=True):
    pad = "    " * indent
    if not block:
        return pad + "pass\n"
    out = []
    for s in block:
        k = s[0]
        if k == "m":
            out.append(f"{pad}m({s[1]})\n")
        elif k in ("pass", "break", "continue"):
            out.append(f"{pad}{k}\n")
        elif k == "return":
            out.append(f"{pad}return" + ("" if s[1] is None else f" v({s[1]})") + "\n")
        elif k in ("if", "while"):
            out.append(f"{pad}{k} c({s[1]}):\n" + render(s[2], indent + 1))
            if s[3]:
                out.append(f"{pad}else:\n" + render(s[3], indent + 1))
        elif k == "for":
            out.append(f"{pad}for x{s[1]} in it({s[1]}):\n" + render(s[2], indent + 1))
            if s[3]:
                out.append(f"{pad}else:\n" + render(s[3], indent + 1))
        else:
            raise ValueError(k)
    return "".join(out)


def program(block, placement):
    if placement == "module":
        return render(block)
    if placement == "function":
        return "def f():\n" + render(block, 1) + "r(f())\n"
    if placement == "class":
        return "class K:\n" + render(block, 1)
    raise ValueError(placement)


class Gen:
    def __init__(self, rng):
        self.rng = rng
        self.k = 0

    def fresh(self):
        self.k += 1
        return self.k

    def block(self, depth, in_loop, in_func, maxlen=3):
        n = self.rng.randint(1, maxlen)
        return [self.stmt(depth, in_loop, in_func) for _ in range(n)]

    def stmt(self, depth, in_loop, in_func):
        r = self.rng.random()
        if depth <= 0 or r < 0.3:
            choices = ["m", "m", "m", "pass"]
            if in_loop:
                choices += ["break", "continue", "break", "continue"]
            if in_func:
                choices += ["return", "returnv"]
            c = self.rng.choice(choices)
            if c == "m":
                return ["m", self.fresh()]
            if c == "return":
                return ["return", None]
            if c == "returnv":
                return ["return", self.fresh()]
            return [c]
        kind = self.rng.choice(["if", "if", "while", "for"])
        k = self.fresh()
        if kind == "if":
            body = self.block(depth - 1, in_loop, in_func)
            orelse = self.block(depth - 1, in_loop, in_func) if self.rng.random() < 0.5 else []
        else:
            body = self.block(depth - 1, True, in_func)
            orelse = self.block(depth - 1, in_loop, in_func) if self.rng.random() < 0.4 else []
        return [kind, k, body, orelse]


def random_skeleton(rng, depth=3):
    placement = rng.choice(["module", "function", "function", "class"])
    g = Gen(rng)
    b = g.block(depth, False, placement == "function")
    return b, placement


def schedules(rng, n=6, length=40):
    out = [[True] * length, [False] * length, [True, False] * (length // 2), [False, True] * (length // 2)]
    while len(out) < n:
        p = rng.choice([0.3, 0.5, 0.7, 0.85])
        out.append([rng.random() < p for _ in range(length)])
    return out[:n]


# -------------------------------------------------------------------------------------------------
# exhaustive enumeration (bounded)

def enum_blocks(depth, in_loop, in_func, maxlen, counter):
    """All blocks of 1..maxlen statements; probe ids are assigned afterwards."""
    stmts = list(enum_stmts(depth, in_loop, in_func, maxlen))
    for n in range(1, maxlen + 1):
        for combo in itertools.product(stmts, repeat=n):
            yield list(combo)


def enum_stmts(depth, in_loop, in_func, maxlen):
    yield ["m", 0]
    if in_loop:
        yield ["break"]
        yield ["continue"]
    if in_func:
        yield ["return", 0]
    if depth > 0:
        for body in enum_blocks(depth - 1, in_loop, in_func, maxlen, None):
            yield ["if", 0, body, []]
            for orelse in enum_blocks(depth - 1, in_loop, in_func, 1, None):
                yield ["if", 0, body, orelse]
        for kind in ("while", "for"):
            for body in enum_blocks(depth - 1, True, in_func, maxlen, None):
                yield [kind, 0, body, []]
                for orelse in enum_blocks(depth - 1, in_loop, in_func, 1, None):
                    yield [kind, 0, body, orelse]


def renumber(block, counter=None):
    counter = counter or itertools.count(1)
    out = []
    for s in block:
        if s[0] == "m":
            out.append(["m", next(counter)])
        elif s[0] == "return":
            out.append(["return", None if s[1] is None else next(counter)])
        elif s[0] in ("if", "while", "for"):
            k = next(counter)
            out.append([s[0], k, renumber(s[2], counter), renumber(s[3], counter)])
        else:
            out.append(list(s))
    return out


# -------------------------------------------------------------------------------------------------
# instrumented execution

class Tracer:
    def __init__(self, schedule):
        self.schedule = list(schedule)
        self.pos = 0
        self.log = []
        self.steps = 0

    def bit(self):
        self.steps += 1
        if self.steps > 4000:
            raise RuntimeError("trace too long")
        if self.pos < len(self.schedule):
            b = self.schedule[self.pos]
            self.pos += 1
            return b
        return False

    def env(self):
        t = self

        def m(k):
            t.log.append(("m", k))

        def c(k):
            b = t.bit()
            t.log.append(("c", k, b))
            # conditions are truth-tested, not compared with True / False: the value is some truthy / falsy object
            return (True, 1, [0], "x", (None,))[k % 5] if b else (False, 0, [], "", None)[k % 5]

        def v(k):
            t.log.append(("v", k))
            return ("val", k)

        def r(x):
            t.log.append(("r", x))

        class It:
            def __init__(self, k):
                self.k = k

            def __iter__(self):
                t.log.append(("iter", self.k))
                return self

            def __next__(self):
                b = t.bit()
                t.log.append(("next", self.k, b))
                if not b:
                    raise StopIteration
                return self.k

        def it(k):
            t.log.append(("iterable", k))
            return It(k)

        return {"m": m, "c": c, "v": v, "r": r, "it": it, "__builtins__": __builtins__}


def run_source(src, schedule):
    t = Tracer(schedule)
    g = t.env()
    try:
        exec(compile(src, "<src>", "exec"), g)
    except Exception as e:
        t.log.append(("EXC", type(e).__name__, str(e)[:100]))
    return t.log


def run_converted(text, schedule):
    t = Tracer(schedule)
    g = t.env()
    try:
        eval(compile(text, "<conv>", "eval"), g)
    except Exception as e:
        t.log.append(("EXC", type(e).__name__, str(e)[:100]))
    return t.log
