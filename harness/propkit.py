"""Building blocks shared by the per-property checks."""
import json
import os

from harness import common, diffexec, lowercorr


def lower_correspondence(chk, sources, configs=lowercorr.CONFIGS, label="converter"):
    """Model (Lower.v) vs real converter: equality of output ASTs / error classes. Returns the sources that disagree."""
    diffs, stats = lowercorr.compare(sources, configs)
    chk.coverage.setdefault("correspondence", {})[label] = dict(stats, disagreements=len(diffs))
    for s in sources:
        chk.note_case(("corr", s))
    bad = []
    for d in diffs:
        bad.append(d["source"])
    if diffs:
        d = diffs[0]
        chk.add_broken("correspondence",
                       f"Lower.lower_module and the real converter disagree on {len(diffs)} (source, config) pairs ({label})",
                       json.dumps({"source": d["source"], "chain_call": d["chain_call"], "short_circuit": d["short_circuit"],
                                   "real": [d["real"][0], d["real"][1][:1500]], "model": [d["model"][0], d["model"][1][:1500]]}))
    return bad


def oracle_exec(chk, sources, triples=diffexec.ALL_CONFIGS, what="converted program behaves differently from the source",
                accept=None, reject_ok=True):
    """Direct oracle: stdout + user globals of exec(source) vs eval(converted), every configuration.
    accept(source, triple, status, detail) -> True to suppress (known finding class)."""
    results = diffexec.run_many(sources, triples)
    counts = {}
    for src, res in zip(sources, results):
        chk.note_case(("exec", src))
        for tr, status, detail in res:
            counts[status] = counts.get(status, 0) + 1
            if status in ("same", "source-raises"):
                continue
            if status == "convert-error" and reject_ok:
                continue
            if accept is not None and accept(src, tr, status, detail):
                counts["known"] = counts.get("known", 0) + 1
                continue
            chk.add_violation(what, source=src, config=dict(zip(("unparser", "expr_wrapper", "if_style"), tr)),
                              status=status, detail=detail)
    cov = chk.coverage.setdefault("direct_oracle", {})
    for k, v in counts.items():
        cov[k] = cov.get(k, 0) + v
    return counts


def replay_known(chk, prop):
    """Re-run the witness of every known finding of this property; report the ones that still fail."""
    kf = common.load_known()
    out = []
    for f in kf.get("findings", []):
        if f["property"] != prop:
            continue
        w = f["witness"]
        triples = [tuple(w["config"])] if "config" in w else [("oneliner", "list", "if_expr")]
        res = diffexec.run_many([w["source"]], triples, need_clean=False)[0]
        still = [r for r in res if r[1] == f.get("status", "differs")]
        if still:
            chk.known_hits.append((f["id"], f["what"]))
        else:
            chk.notes.append(f"known finding {f['id']} no longer reproduces (status now {[r[1] for r in res]})")
        out.append((f, bool(still)))
    return out


def load_replay_sources(replay):
    if not replay:
        return None
    data = json.load(open(replay))
    srcs = []
    for v in [data.get("violation", {})] + data.get("all_violations", []):
        if isinstance(v, dict) and "source" in v:
            srcs.append(v["source"])
    for b in data.get("broken_obligations", data.get("obligations", [])):
        try:
            srcs.append(json.loads(b.get("message", ""))["source"])
        except Exception:
            pass
    return list(dict.fromkeys(srcs)) or None
