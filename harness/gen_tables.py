"""Regenerate coq/gen/Tables.v from /repo's *current* source (the "translator" half of the tie).

Fail-closed: anything this script does not recognise raises TableError, which the checks report as a
broken obligation.  Run with the repository on sys.path (REPO env var, default /repo).
"""
import ast
import hashlib
import importlib
import json
import os
import sys

REPO = os.environ.get("OL_REPO", "/repo")
OUT = os.path.join(os.path.dirname(os.path.abspath(__file__)), "..", "coq", "gen", "Tables.v")


class TableError(Exception):
    pass


def coq_str(s):
    if any(ord(c) > 126 or ord(c) < 32 for c in s):
        raise TableError(f"non printable text in table: {s!r}")
    return '"' + s.replace('"', '""') + '"'


BINOPS = ["Add", "Sub", "Mult", "MatMult", "Div", "Mod", "Pow", "LShift", "RShift", "BitOr", "BitXor",
          "BitAnd", "FloorDiv"]
UNOPS = ["Invert", "Not", "UAdd", "USub"]
BOOLOPS = ["And", "Or"]
CMPOPS = ["Eq", "NotEq", "Lt", "LtE", "Gt", "GtE", "Is", "IsNot", "In", "NotIn"]
NODE_KINDS = ["Name", "Constant", "JoinedStr", "FormattedValue", "Starred", "BinOp", "BoolOp", "UnaryOp", "List",
              "Tuple", "Set", "Dict", "Compare", "Attribute", "Subscript", "Slice", "Call", "NamedExpr", "Lambda",
              "ListComp", "SetComp", "GeneratorExp", "DictComp", "IfExp", "Yield", "YieldFrom", "Await"]


def match_fn(name, ty, items, res_ty, fmt):
    lines = [f"Definition {name} (o : {ty}) : {res_ty} :=", "  match o with"]
    for k, v in items:
        lines.append(f"  | {k} => {fmt(v)}")
    lines.append("  end.")
    return "\n".join(lines)


def drive(gen):
    """Run an unparse_* generator feeding sentinel strings; return list of (prec, child) and result."""
    ys = []
    try:
        y = next(gen)
        while True:
            ys.append(y)
            y = gen.send("S")
    except StopIteration as r:
        return ys, r.value


def gen_unparse_tables(U):
    out = []
    # ---- the ladder
    precs = sorted(((v, k) for k, v in vars(U).items() if k.startswith("PREC_") and isinstance(v, int)))
    if len(set(v for v, _ in precs)) != len(precs):
        raise TableError("two PREC_ names share a value")
    for v, k in precs:
        out.append(f"Definition {k} : nat := {v}.")
    out.append("Definition prec_ladder : list (string * nat) := [" +
               "; ".join(f"({coq_str(k)}, {v})" for v, k in precs) + "].")
    if U.INF <= max(v for v, _ in precs):
        raise TableError("INF not above ladder")

    def pname(v):
        for vv, k in precs:
            if vv == v:
                return k
        raise TableError(f"precedence value {v} is not a PREC_ constant")

    # ---- node precedences
    def node_prec(kind):
        cls = getattr(ast, kind)
        if cls not in U.node_prec_map:
            raise TableError(f"no node precedence for {kind}")
        return pname(U.node_prec_map[cls])

    for kind in NODE_KINDS:
        if kind in ("BinOp", "BoolOp", "UnaryOp"):
            continue
        out.append(f"Definition node_prec_{kind} : nat := {node_prec(kind)}.")
    extra = set(c.__name__ for c in U.node_prec_map) - set(NODE_KINDS)
    if extra:
        raise TableError(f"unknown node kinds in node_prec_map: {extra}")
    if set(U._Node.gen_map) != set(getattr(ast, k) for k in NODE_KINDS):
        raise TableError("gen_map covers a different set of node kinds than the model")
    for kind in NODE_KINDS:
        if U._Node.gen_map[getattr(ast, kind)].__name__ != "unparse_" + kind:
            raise TableError(f"gen_map[{kind}] is not unparse_{kind}")

    def opmap(d, names, what):
        if set(c.__name__ for c in d) != set(names):
            raise TableError(f"{what}: operator set differs")
        return [(n, d[getattr(ast, n)]) for n in names]

    out.append(match_fn("binop_prec", "binop", opmap(U.binop_node_prec_map, BINOPS, "binop prec"), "nat", pname))
    out.append(match_fn("unop_prec", "unop", opmap(U.unaryop_node_prec_map, UNOPS, "unaryop prec"), "nat", pname))
    out.append(match_fn("boolop_prec", "boolop", opmap(U.boolop_node_prec_map, BOOLOPS, "boolop prec"), "nat", pname))
    out.append(match_fn("binop_text", "binop", opmap(U.operator_map, BINOPS, "operator_map"), "string", coq_str))
    out.append(match_fn("unop_text", "unop", opmap(U.unaryop_map, UNOPS, "unaryop_map"), "string", coq_str))
    out.append(match_fn("boolop_text", "boolop", opmap(U.boolop_map, BOOLOPS, "boolop_map"), "string", coq_str))
    out.append(match_fn("cmpop_text", "cmpop", opmap(U.cmpop_map, CMPOPS, "cmpop_map"), "string", coq_str))

    # ---- slots, by driving every generator with sentinel children
    N = lambda s: ast.Name(id=s, ctx=ast.Load())

    def slots_of(node, qm=None):
        g = U._Node.gen_map[type(node)]
        gen = g(node, qm) if qm is not None else g(node)
        ys, _ = drive(gen)
        return ys

    def slot_by_child(ys, child):
        found = [p for p, c in ys if c is child]
        if len(found) != 1:
            raise TableError("child yielded %d times" % len(found))
        return pname(found[0])

    def uniform(ys_list, what):
        vals = set(ys_list)
        if len(vals) != 1:
            raise TableError(f"slot of {what} is not uniform: {vals}")
        return vals.pop()

    sl = {}
    bl, br = [], []
    for o in BINOPS:
        a, b = N("a"), N("b")
        ys = slots_of(ast.BinOp(left=a, op=getattr(ast, o)(), right=b))
        if len(ys) != 2:
            raise TableError("BinOp yields")
        bl.append((o, slot_by_child(ys, a)))
        br.append((o, slot_by_child(ys, b)))
    out.append(match_fn("slot_BinOp_left", "binop", bl, "nat", str))
    out.append(match_fn("slot_BinOp_right", "binop", br, "nat", str))
    us = []
    for o in UNOPS:
        a = N("a")
        ys = slots_of(ast.UnaryOp(op=getattr(ast, o)(), operand=a))
        us.append((o, slot_by_child(ys, a)))
    out.append(match_fn("slot_UnaryOp", "unop", us, "nat", str))
    bs = []
    for o in BOOLOPS:
        vals = [N("a"), N("b"), N("c")]
        ys = slots_of(ast.BoolOp(op=getattr(ast, o)(), values=vals))
        bs.append((o, uniform([slot_by_child(ys, v) for v in vals], "BoolOp")))
    out.append(match_fn("slot_BoolOp", "boolop", bs, "nat", str))

    a, b, c, d = N("a"), N("b"), N("c"), N("d")
    sl["Starred_value"] = slot_by_child(slots_of(ast.Starred(value=a, ctx=ast.Load())), a)
    sl["Attribute_value"] = slot_by_child(slots_of(ast.Attribute(value=a, attr="x", ctx=ast.Load())), a)
    ys = slots_of(ast.Subscript(value=a, slice=b, ctx=ast.Load()))
    sl["Subscript_value"], sl["Subscript_slice"] = slot_by_child(ys, a), slot_by_child(ys, b)
    sl_item, plain_item = ast.Slice(lower=None, upper=None, step=None), N("ti")
    ys = slots_of(ast.Subscript(value=a, slice=ast.Tuple(elts=[sl_item, plain_item], ctx=ast.Load()), ctx=ast.Load()))
    if slot_by_child(ys, a) != sl["Subscript_value"]:
        raise TableError("Subscript value slot differs for a tuple index")
    sl["Subscript_tuple_item"] = uniform([slot_by_child(ys, sl_item), slot_by_child(ys, plain_item)], "Subscript tuple items")
    ys = slots_of(ast.Slice(lower=a, upper=b, step=c))
    sl["Slice_lower"], sl["Slice_upper"], sl["Slice_step"] = (slot_by_child(ys, x) for x in (a, b, c))
    ys = slots_of(ast.Call(func=a, args=[b], keywords=[]))
    sl["Call_func"], sl["Call_onlyarg"] = slot_by_child(ys, a), slot_by_child(ys, b)
    ys = slots_of(ast.Call(func=a, args=[b, c], keywords=[ast.keyword(arg="k", value=d), ast.keyword(arg=None, value=N("e"))]))
    if slot_by_child(ys, a) != sl["Call_func"]:
        raise TableError("Call func slot differs with several args")
    sl["Call_arg"] = uniform([slot_by_child(ys, b), slot_by_child(ys, c)], "Call args")
    sl["Call_kwarg"] = uniform([pname(p) for p, ch in ys if ch is d or getattr(ch, "id", "") == "e"], "Call kwargs")
    ys = slots_of(ast.Call(func=a, args=[b], keywords=[ast.keyword(arg="k", value=d)]))
    if slot_by_child(ys, b) != sl["Call_arg"]:
        raise TableError("Call: single arg with keyword slot differs from Call_arg")
    for kind in ("List", "Set", "Tuple"):
        got = []
        for n in (1, 2, 3):
            vals = [N(f"v{i}") for i in range(n)]
            kw = {"ctx": ast.Load()} if kind != "Set" else {}
            ys = slots_of(getattr(ast, kind)(elts=vals, **kw))
            got += [slot_by_child(ys, v) for v in vals]
        sl[f"{kind}_elt"] = uniform(got, kind)
    ys = slots_of(ast.Dict(keys=[a, None], values=[b, c]))
    sl["Dict_key"], sl["Dict_value"], sl["Dict_starvalue"] = slot_by_child(ys, a), slot_by_child(ys, b), slot_by_child(ys, c)
    ys = slots_of(ast.Compare(left=a, ops=[ast.Lt(), ast.In()], comparators=[b, c]))
    sl["Compare_left"] = slot_by_child(ys, a)
    sl["Compare_comparator"] = uniform([slot_by_child(ys, b), slot_by_child(ys, c)], "Compare")
    sl["NamedExpr_value"] = slot_by_child(slots_of(ast.NamedExpr(target=ast.Name(id="t", ctx=ast.Store()), value=a)), a)
    lam = ast.Lambda(args=ast.arguments(posonlyargs=[ast.arg(arg="p")], args=[ast.arg(arg="q")], vararg=None,
                                        kwonlyargs=[ast.arg(arg="r")], kw_defaults=[c], kwarg=None, defaults=[a, b]),
                     body=d)
    ys = slots_of(lam)
    sl["Lambda_body"] = slot_by_child(ys, d)
    sl["Lambda_default"] = uniform([slot_by_child(ys, a), slot_by_child(ys, b)], "Lambda defaults")
    sl["Lambda_kwdefault"] = slot_by_child(ys, c)
    comp = lambda: [ast.comprehension(target=N("t"), iter=N("i"), ifs=[N("f"), N("g")], is_async=0),
                    ast.comprehension(target=N("t2"), iter=N("i2"), ifs=[], is_async=0)]
    got = {"iter": [], "target": [], "if": []}
    for kind in ("ListComp", "SetComp", "GeneratorExp", "DictComp"):
        gens = comp()
        if kind == "DictComp":
            node = ast.DictComp(key=a, value=b, generators=gens)
        else:
            node = getattr(ast, kind)(elt=a, generators=gens)
        ys = slots_of(node)
        if kind == "DictComp":
            sl["DictComp_key"], sl["DictComp_value"] = slot_by_child(ys, a), slot_by_child(ys, b)
        else:
            sl[f"{kind}_elt"] = slot_by_child(ys, a)
        for g in gens:
            got["iter"].append(slot_by_child(ys, g.iter))
            got["target"].append(slot_by_child(ys, g.target))
            got["if"] += [slot_by_child(ys, f) for f in g.ifs]
    for k, v in got.items():
        sl[f"comp_{k}"] = uniform(v, f"comprehension {k}")
    ys = slots_of(ast.IfExp(test=a, body=b, orelse=c))
    sl["IfExp_test"], sl["IfExp_body"], sl["IfExp_orelse"] = (slot_by_child(ys, x) for x in (a, b, c))
    sl["Yield_value"] = slot_by_child(slots_of(ast.Yield(value=a)), a)
    sl["YieldFrom_value"] = slot_by_child(slots_of(ast.YieldFrom(value=a)), a)
    sl["Await_value"] = slot_by_child(slots_of(ast.Await(value=a)), a)
    fv = ast.FormattedValue(value=a, conversion=-1, format_spec=None)
    sl["FormattedValue_value"] = slot_by_child(slots_of(fv, "'"), a)
    fv2 = ast.FormattedValue(value=a, conversion=-1, format_spec=ast.JoinedStr(values=[ast.Constant(value="x"), fv]))
    sl["FormattedValue_spec_field"] = slot_by_child(slots_of(fv2, "'"), fv)
    sl["JoinedStr_field"] = slot_by_child(slots_of(ast.JoinedStr(values=[ast.Constant(value="x"), fv]), "'"), fv)
    for k in sorted(sl):
        out.append(f"Definition slot_{k} : nat := {sl[k]}.")
    out.append("Definition slot_table : list (string * nat) := [" +
               "; ".join(f"({coq_str(k)}, {sl[k]})" for k in sorted(sl)) + "].")

    # the driver's initial slot and quote
    import inspect
    src = inspect.getsource(U.expr_unparse)
    if "_Node(PREC_EXPR_SLOT, node, '\"')" not in src:
        raise TableError("expr_unparse: initial slot/quote not recognised")
    out.append("Definition slot_top : nat := PREC_EXPR_SLOT.")

    # ---- escape table
    for qname, q in (("sq", "'"), ("dq", '"')):
        rows = []
        for cp in range(0x300):
            t = U.get_unescaped_str(chr(cp), q)
            rows.append("[" + ";".join(str(ord(ch)) for ch in t) + "]")
        out.append(f"Definition escape_table_{qname} : list (list N) := [\n  " + ";\n  ".join(
            "; ".join(rows[i:i + 8]) for i in range(0, len(rows), 8)) + "]%N.")
    # the rule above the table, sampled (checked against the model's rule by a vm_compute lemma)
    samples = [0x300, 0x301, 0x3A9, 0x4F60, 0xD7FF, 0xD800, 0xDBFF, 0xDC00, 0xDFFF, 0xE000, 0xFFFF, 0x10000, 0x1F600, 0x10FFFF]
    rows = []
    for cp in samples:
        a_, b_ = U.get_unescaped_str(chr(cp), "'"), U.get_unescaped_str(chr(cp), '"')
        rows.append(f"({cp}, [" + ";".join(str(ord(ch)) for ch in a_) + "], [" + ";".join(str(ord(ch)) for ch in b_) + "])")
    out.append("Definition escape_samples : list (N * list N * list N) := [" + "; ".join(rows) + "]%N.")
    # repr of non-finite floats
    reps = []
    for v in (float("inf"), complex(0, float("inf")), float("nan"), 1e22, 0.5):
        got = "".join(drive(U.unparse_Constant(ast.Constant(value=v), "'"))[1])
        reps.append("(" + cps_list(repr(v)) + ", " + cps_list(got) + ")")
    out.append("Definition float_samples : list (list N * list N) := [" + "; ".join(reps) + "]%N.")
    return out


def cps_list(s):
    return "[" + ";".join(str(ord(c)) for c in s) + "]"


def coq_list(f, xs):
    return "[" + "; ".join(f(x) for x in xs) + "]"


def coq_opt(f, x):
    return "None" if x is None else "(Some " + f(x) + ")"


def coq_const(v):
    if v is None:
        return "CNone"
    if v is True:
        return "CTrue"
    if v is False:
        return "CFalse"
    if v is Ellipsis:
        return "CEllipsis"
    if isinstance(v, int):
        return f"(CInt ({v})%Z)"
    if isinstance(v, str):
        return "(CStr (s2t " + coq_str(v) + "))"
    raise TableError(f"constant {v!r} in a preset")


def coq_expr(n):
    """Python expression AST -> Coq term of type PyAst.expr (only the node kinds presets use)."""
    t = type(n).__name__
    if t == "Name":
        return f"(Name {coq_str(n.id)})"
    if t == "Constant":
        return f"(Constant {coq_const(n.value)})"
    if t == "NamedExpr":
        return f"(NamedExpr {coq_str(n.target.id)} {coq_expr(n.value)})"
    if t == "Call":
        kws = coq_list(lambda k: f"({coq_opt(coq_str, k.arg)}, {coq_expr(k.value)})", n.keywords)
        return f"(Call {coq_expr(n.func)} {coq_list(coq_expr, n.args)} {kws})"
    if t in ("Tuple", "List", "Set"):
        return f"(E{t} {coq_list(coq_expr, n.elts)})"
    if t == "Dict":
        return f"(EDict {coq_list(lambda k: coq_opt(coq_expr, k), n.keys)} {coq_list(coq_expr, n.values)})"
    if t == "Attribute":
        return f"(Attribute {coq_expr(n.value)} {coq_str(n.attr)})"
    if t == "Subscript":
        return f"(Subscript {coq_expr(n.value)} {coq_expr(n.slice)})"
    if t == "IfExp":
        return f"(IfExp {coq_expr(n.test)} {coq_expr(n.body)} {coq_expr(n.orelse)})"
    if t == "UnaryOp":
        return f"(UnaryOp {type(n.op).__name__} {coq_expr(n.operand)})"
    if t == "Lambda":
        a = n.args
        g = lambda f: getattr(a, f, None)
        return ("(Lambda " + coq_list(lambda x: coq_str(x.arg), a.posonlyargs) + " " + coq_list(lambda x: coq_str(x.arg), a.args)
                + " " + coq_opt(lambda x: coq_str(x.arg), g("vararg")) + " " + coq_list(lambda x: coq_str(x.arg), a.kwonlyargs)
                + " " + coq_list(lambda d: coq_opt(coq_expr, d), a.kw_defaults) + " " + coq_opt(lambda x: coq_str(x.arg), g("kwarg"))
                + " " + coq_list(coq_expr, a.defaults) + " " + coq_expr(n.body) + ")")
    raise TableError(f"node kind {t} in a preset")


def gen_converter_tables():
    out = []
    PR = sys.modules["oneliner.presets"]
    if PR.iter_wrapper_name.id != "__ol_iter_wrapper":
        raise TableError("iter_wrapper_name changed")
    out.append("Definition preset_iter_wrapper : expr := " + coq_expr(PR.iter_wrapper_body) + ".")
    P = sys.modules["oneliner.pending_nodes"]
    C = sys.modules["oneliner.convert"]
    CFG = sys.modules["oneliner.config"]
    R = sys.modules["oneliner.reserved_identifiers"]
    # augmented-assignment operator table
    d = P.PendingAugAssign._op_dict
    if set(c.__name__ for c in d) != set(BINOPS):
        raise TableError("_op_dict operator set differs")
    out.append(match_fn("aug_op_name", "binop", [(n, d[getattr(ast, n)]) for n in BINOPS], "string", coq_str))
    # dispatch table
    disp = sorted((k.__name__, v.__name__) for k, v in C.ast2pending.items())
    out.append("Definition dispatch_table : list (string * string) := [" +
               "; ".join(f"({coq_str(k)}, {coq_str(v)})" for k, v in disp) + "].")
    # options
    names = list(CFG.Configs.config_names)
    rows = []
    for n in names:
        desc = CFG.Configs.__dict__[n]
        if not isinstance(desc, CFG.Cfg) or not isinstance(desc.tp, list):
            raise TableError(f"option {n}: not a list-typed Cfg")
        rows.append(f"({coq_str(n)}, [" + "; ".join(coq_str(x) for x in desc.tp) + f"], {coq_str(desc.default)})")
    out.append("Definition config_table : list (string * list string * string) := [" + "; ".join(rows) + "].")
    # reserved name formats
    fmts = sorted((k, v) for k, v in vars(R).items() if k.startswith("OL_") and isinstance(v, str))
    out.append("Definition reserved_formats : list (string * string) := [" +
               "; ".join(f"({coq_str(k)}, {coq_str(v)})" for k, v in fmts) + "].")
    return out


def generate():
    if REPO not in sys.path:
        sys.path.insert(0, REPO)
    importlib.invalidate_caches()
    import oneliner  # noqa
    import oneliner.presets  # noqa
    U = sys.modules["oneliner.expr_unparse"]
    body = ["(* GENERATED by harness/gen_tables.py from the repository's current source. Do not edit. *)",
            "From Coq Require Import String List NArith ZArith.",
            "From OL Require Import PyAst.",
            "Import ListNotations.",
            "Open Scope string_scope.",
            ""]
    body += gen_unparse_tables(U)
    body += gen_converter_tables()
    return "\n".join(body) + "\n"


def main():
    text = generate()
    out = os.path.normpath(OUT)
    old = None
    if os.path.exists(out):
        with open(out) as f:
            old = f.read()
    changed = old != text
    if changed:
        os.makedirs(os.path.dirname(out), exist_ok=True)
        with open(out, "w") as f:
            f.write(text)
    print(json.dumps({"changed": changed, "sha256": hashlib.sha256(text.encode()).hexdigest(), "path": out}))


if __name__ == "__main__":
    try:
        main()
    except TableError as e:
        print(json.dumps({"error": str(e)}))
        sys.exit(3)
