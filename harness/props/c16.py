"""C16 - the command line writes exactly the API result and validates options."""
import itertools
import os
import random
import shutil
import subprocess
import tempfile
from concurrent.futures import ThreadPoolExecutor

from harness import common, diffexec, sexp

VFILES = ["theories/Config.v", "theories/Cli.v", "theories/CliProof.v"]

PROGRAMS = [
    "x = 0\nwhile x < 3:\n    x += 1\n    if x == 2:\n        continue\n    print(x)\nelse:\n    print('done')\n",
    "def f(a, b=2):\n    for i in range(a):\n        if i == b:\n            return i\n    return -1\nprint(f(5), f(1))\n",
    # the FILE is what is converted, character for character: tab characters inside string literals and as indentation, a
    # non-ASCII letter, no newline at the end of the file
    "row = ['a', 'b', 'c']\nline = '\t'.join(row)\nif row:\n\tdoc = '''first\n\tindented\ttabs'''\n\tprint(line, len(line), repr(doc))\nname = 'größe'\nprint(name, len('a\\rb'))",
]
NAMES = ["unparser", "expr_wrapper", "if_style"]
OPTS = {"unparser": ["ast.unparse", "oneliner"], "expr_wrapper": ["list", "chain_call"],
        "if_style": ["if_expr", "short_circuit"]}
BAD_ARGS = ["unparser", "unparser=", "=oneliner", "unparser=one=liner", "a=b=c", "", "=",
            "foo=1", "config_names=x", "__doc__=x", "__class__=int", "Unparser=oneliner", "unparser =oneliner",
            "unparser=Oneliner", "expr_wrapper=oneliner", "if_style=list", "unparser=ast.unparse ", "expr_wrapper=None"]


def cases(rng, n_random):
    out = []
    # every full option combination through -C
    for triple in itertools.product(*[OPTS[n] for n in NAMES]):
        out.append(([f"{n}={v}" for n, v in zip(NAMES, triple)], None, True))
    out.append(([], None, True))
    out.append(([], None, False))
    out.append((["unparser=oneliner"], "ast.unparse", True))      # deprecated flag overrides -C
    out.append((["unparser=ast.unparse", "unparser=oneliner"], None, False))   # last one wins
    out.append(([], "oneliner", False))
    # each bad argument alone, first, last
    for b in BAD_ARGS:
        out.append(([b], None, True))
        out.append((["expr_wrapper=list", b], None, True))
        out.append(([b, "if_style=short_circuit"], None, True))
        out.append(([b], None, False))
    for _ in range(n_random):
        k = rng.randint(1, 4)
        cs = []
        for _ in range(k):
            if rng.random() < 0.25:
                cs.append(rng.choice(BAD_ARGS))
            else:
                n = rng.choice(NAMES)
                cs.append(f"{n}={rng.choice(OPTS[n])}")
        out.append((cs, rng.choice([None, None, "oneliner", "ast.unparse"]), rng.random() < 0.7))
    return out


def model_line(cs, unp, out):
    return "(cli (%s) %s %s)" % (" ".join("(" + " ".join(str(b) for b in c.encode()) + ")" for c in cs), "()" if unp is None else f"('{unp})", "1" if out else "0")


SENTINEL = "SENTINEL: previous content of the output file\n"


def run_cli(case, prog, preexisting, o_first, inplace=None):
    """inplace: the output file IS the input file, named the same way / as ./in.py / by its absolute path / through a symlink
    (the text written must still be the conversion of what the file contained)"""
    cs, unp, out = case
    d = tempfile.mkdtemp(prefix="olcli_")
    try:
        inp = os.path.join(d, "in.py")
        outp = os.path.join(d, "out.py")
        with open(inp, "w") as f:
            f.write(prog)
        if preexisting:
            with open(outp, "w") as f:
                f.write(SENTINEL)
        argv = [common.PY, "-W", "ignore", "-m", "oneliner"]
        # the output file is named the way users name it: half of the runs by a bare file name relative to the working directory
        oargs = ["-o", "out.py" if (len(cs) + preexisting + o_first) % 2 else outp] if out else []
        if out and inplace:
            if os.path.exists(outp):
                os.remove(outp)
            if inplace == "symlink":
                os.symlink(inp, os.path.join(d, "link.py"))
            oargs = ["-o", {"same": inp, "dot": "./in.py", "bare": "in.py", "symlink": "link.py"}[inplace]]
            outp = inp
        cargs = []
        for c in cs:
            cargs += ["-C", c] if c != "" else ["-C", ""]
        uargs = ["--unparser", unp] if unp else []
        argv += (oargs + cargs if o_first else cargs + oargs) + uargs + [inp]
        untouched = prog if (out and inplace) else (SENTINEL if preexisting else None)
        p = subprocess.run(argv, capture_output=True, text=True, env=common.child_env(), timeout=120, cwd=d)
        content = open(outp).read() if os.path.exists(outp) else None
        return {"rc": p.returncode, "stdout": p.stdout, "stderr": p.stderr[-300:], "out": content, "untouched": untouched}
    finally:
        shutil.rmtree(d, ignore_errors=True)


def run(chk, build, replay=None):
    common.standard_proof_part(chk, build, VFILES)
    chk.trusted += [
        "C16: Cli.v models oneliner/__main__.py's own logic (split on '=', arity, known-name check, descriptor validation, "
        "deprecated --unparser, read/convert/write-or-print order); argparse, file I/O and process exit status are CPython's "
        "and are observed by running the real command line in subprocesses",
    ]
    rng = random.Random(chk.seed * 17 + 16)
    cs = cases(rng, 40 if chk.tier == "quick" else 600)
    answers = common.model_eval([model_line(*c) for c in cs])
    jobs = []
    for i, c in enumerate(cs):
        jobs.append((c, PROGRAMS[i % len(PROGRAMS)], i % 3 != 0, i % 2 == 0, None))
    # converting a file in place: -o names the input file itself (same spelling, another spelling, a symlink)
    without = [c for c in cs if c[2]]
    for i, c in enumerate(without[: (12 if chk.tier == "quick" else 120)]):
        jobs.append((c, PROGRAMS[i % len(PROGRAMS)], False, i % 2 == 0, ("same", "dot", "bare", "symlink")[i % 4]))
    answers = answers + common.model_eval([model_line(*j[0]) for j in jobs[len(cs):]])
    with ThreadPoolExecutor(common.NCPU) as ex:
        results = list(ex.map(lambda j: run_cli(*j), jobs))
    ref = {}

    def api_text(prog, eff):
        key = (prog, tuple(eff))
        if key not in ref:
            ref[key] = sexp.canon_ol(diffexec.convert(prog, tuple(eff)))
        return ref[key]

    kinds = {"ok": 0, "TypeError": 0, "ValueError": 0}
    for (case, prog, pre, ofirst, inplace), ans, r in zip(jobs, answers, results):
        chk.note_case((case, prog, pre, ofirst, inplace))
        x = sexp.read(ans)
        if x[0] != "ok":
            chk.add_broken("model", "Cli model could not evaluate a case", ans[:200])
            continue
        verdict, effects = x[1][0], x[1][1]
        kinds[verdict] = kinds.get(verdict, 0) + 1
        info = dict(args=case[0], unparser_flag=case[1], with_output=case[2], preexisting_output=pre, o_first=ofirst, output_is_input=inplace, program=prog,
                    observed={k: (v[:300] if isinstance(v, str) else v) for k, v in r.items()}, model=ans[:300])
        if verdict != "ok":
            if r["rc"] == 0:
                chk.add_violation("a malformed/unknown/illegal -C argument was accepted", **info)
            elif case[2] and r["out"] != r["untouched"]:
                chk.add_violation("a rejected command line created or modified the output file", **info)
            elif verdict not in r["stderr"]:
                chk.add_broken("correspondence", f"CLI model predicts {verdict}, the real command line fails differently", str(info)[:1500])
        else:
            eff = None
            for e in effects:
                if e[0] in ("write", "print"):
                    eff = [v[1:] for _, v in e[1]]
            want = api_text(prog, eff)
            if r["rc"] != 0:
                chk.add_violation("a valid command line was rejected", **info)
            elif case[2]:
                if r["out"] is None or sexp.canon_ol(r["out"]) != want:
                    chk.add_violation("the output file does not contain the API result for these options", expected=want[:300], **info)
                elif r["stdout"].strip():
                    chk.add_violation("text printed although -o was given", **info)
            else:
                if sexp.canon_ol(r["stdout"]) != want + "\n":
                    chk.add_violation("printed text is not the API result for these options", expected=want[:300], **info)
    # the text evaluates like the script (all 8 option combinations, in-process)
    res = diffexec.run_many(PROGRAMS)
    for prog, rr in zip(PROGRAMS, res):
        for tr, status, detail in rr:
            if status != "same":
                chk.add_violation("the text for these options does not evaluate like the script", source=prog, config=tr, status=status, detail=detail)
    chk.samples = [{"args": c[0], "unparser_flag": c[1], "with_output": c[2]} for c in cs[:3] + cs[30:33]]
    chk.coverage["input_distribution"] = {"command_lines": len(cs), "model_verdicts": kinds, "api_reference_conversions": len(ref)}
