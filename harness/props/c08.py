"""C08 - unsupported constructs are rejected, never silently dropped or mistranslated."""
import ast
import copy
import random

from harness import common, diffexec, gen_cf, lowercorr, propkit

VFILES = ["theories/Namespace.v", "theories/Lower.v", "theories/Reject.v", "theories/UnpackProof.v", "theories/DeadCode.v"]

UNSUPPORTED_STMTS = [
    "try:\n    pass\nexcept Exception:\n    pass",
    "try:\n    pass\nfinally:\n    pass",
    "raise ValueError(1)",
    "with open(f) as g:\n    pass",
    "assert cond, 'msg'",
    "del name",
    "match v:\n    case 1:\n        pass",
    "type T = int",
    "async def co():\n    pass",
    "from os import *",        # only valid at module level
    # an asynchronous clause at ANY position of a generator expression (legal anywhere for CPython, an async form for the converter)
    "q = (i for a in y async for i in a)",
    "q = list(i async for i in y)",
    "q = sum(i for a in y if a for b in a async for i in b)",
]
IN_FUNCTION_ONLY = ["yield 1", "x = yield", "yield from it", "x = [(yield 2)]", "f(lambda: (yield))",
                    # a BARE yield (no value: a node without children) in operand / argument / element / index / field positions
                    "print((yield))", "t = a + (yield)", "q = [(yield), (yield)]", "a[(yield)] = 1", "s = f'{(yield)}'",
                    "u = -(yield)", "v = 1 if (yield) else 2", "w = (yield).b", "f(k=(yield), *(yield))"]
ILLEGAL = {
    "break": "break", "continue": "continue", "return": "return 1",
    "two-stars": "*a, *b = [1, 2]", "two-stars-nested": "x, (*y, z, *w) = 1, [2, 3]", "two-stars-for": "for *a, *b in []:\n    pass",
    # the same rule for the targets of comprehension clauses (every kind of comprehension, any clause, nested patterns)
    "two-stars-listcomp": "q = [0 for *a, *b in []]", "two-stars-genexp": "q = list(h for h, (*x, m, *y) in [])",
    "two-stars-dictcomp": "q = {k: 1 for row in [] for [*k, *v] in row}", "two-stars-setcomp": "print({0 for *a, *b in []})",
    # asynchronous list / set / dict comprehensions outside a coroutine (CPython refuses to compile them), the `async` on a later clause
    "async-listcomp": "q = [i async for i in y]", "async-listcomp-later": "q = [i for a in y async for i in a]",
    "async-setcomp-later": "q = {i for a in y if a async for i in a}", "async-dictcomp-later": "q = {i: a for a in y async for i in a}",
}

BASES = [
    "x = 1\nif x:\n    y = 2\nelse:\n    y = 3\nwhile x:\n    x -= 1\nelse:\n    z = 0\nfor i in range(2):\n    w = i\n",
    "def f(a):\n    if a:\n        return 1\n    for i in a:\n        if i:\n            break\n    else:\n        return 2\n    return 3\n",
    "class K:\n    a = 1\n    def m(self):\n        while self.a:\n            self.a -= 1\n        return self\n    if a:\n        b = 2\n",
    "for i in range(3):\n    def g():\n        return i\n    class L:\n        v = i\n",
    # a class body nested in a function (a `return` there is outside any function body), with its own control flow
    "def outer(a):\n    class Inner:\n        b = a\n        if a:\n            c = 1\n        for i in a:\n            d = i\n        class Deeper:\n            e = 2\n    return Inner\n",
    "class K:\n    def m(self, v):\n        class L:\n            w = v\n            while v:\n                v -= 1\n        return L\n",
    # blocks that can never run (literal tests): conversion still has to look at them - rejection is about the script, not the run
    "if 0:\n    a = 1\nelse:\n    a = 2\nif 1:\n    b = 1\nelif b:\n    b = 2\nelse:\n    b = 3\nwhile 0:\n    c = 1\nelse:\n    c = 2\n",
    "def f(a):\n    if False:\n        a = 1\n    if None:\n        a = 2\n    elif '':\n        a = 3\n    for i in a:\n        if True:\n            a = 4\n        else:\n            a = 5\n    return a\n",
    "class K:\n    if 0:\n        a = 1\n    def m(self):\n        if 'x':\n            return 1\n        else:\n            self.a = 2\n        while False:\n            self.a = 3\n",
]


def stmt_lists(tree):
    """(owner description, list object, inside function?, inside loop (same scope)?, kind of scope);
    lists under a statement that follows a break/continue/return in its own block are unreachable and left out"""
    out = []

    def walk(node, in_func, in_loop, scope):
        for field in ("body", "orelse"):
            lst = getattr(node, field, None)
            if isinstance(lst, list) and lst and isinstance(lst[0], ast.stmt):
                loop_here = in_loop or (isinstance(node, (ast.While, ast.For)) and field == "body")
                if isinstance(node, (ast.FunctionDef, ast.ClassDef)):
                    loop_here = False
                if field == "orelse" and isinstance(node, (ast.While, ast.For)):
                    loop_here = in_loop
                out.append((f"{type(node).__name__}.{field}", lst, in_func, loop_here, scope))
                for s in lst:
                    if isinstance(s, ast.FunctionDef):
                        walk(s, True, False, "function")
                    elif isinstance(s, ast.ClassDef):
                        walk(s, False, False, "class")
                    else:
                        walk(s, in_func, loop_here, scope)
                    if isinstance(s, (ast.Break, ast.Continue, ast.Return)):
                        break      # the rest of this block is never converted and can never run

    walk(tree, False, False, "module")
    return out


def injections(base, what_src, need_function=False, need_module=False, skip_after_interrupt=True):
    tree = ast.parse(base)
    new_stmts = ast.parse(what_src).body
    n = len(stmt_lists(tree))
    for li in range(n):
        t2 = copy.deepcopy(tree)
        owner, lst, in_func, in_loop, scope = stmt_lists(t2)[li]
        if need_function and not in_func:
            continue
        if need_module and owner != "Module.body":
            continue
        for pos in range(len(lst) + 1):
            if skip_after_interrupt and any(isinstance(s, (ast.Break, ast.Continue, ast.Return)) for s in lst[:pos]):
                continue
            t3 = copy.deepcopy(t2)
            lst3 = stmt_lists(t3)[li][1]
            lst3[pos:pos] = copy.deepcopy(new_stmts)
            try:
                yield owner, pos, in_func, in_loop, scope, ast.unparse(ast.fix_missing_locations(t3))
            except Exception:
                continue


def converts(src):
    """True if conversion returns, else the exception class name"""
    try:
        diffexec.convert(src, ("oneliner", "list", "if_expr"))
        return True
    except Exception as e:
        return type(e).__name__


def cpython_compiles(src):
    try:
        compile(src, "<s>", "exec")
        return True
    except SyntaxError:
        return False


def run(chk, build, replay=None):
    common.standard_proof_part(chk, build, VFILES)
    propkit.replay_known(chk, "C08")      # listed design-level deviations of this property: re-confirmed on the real code
    chk.trusted += [
        "C08: statements after a literal break/continue/return in the same block are never converted (they cannot run); "
        "an unsupported construct there is not rejected and is outside the theorem (reaches_unsupported) and the oracle",
        "expression-level rejection is proved for the head of every rewritten expression; that the rewriter visits every "
        "sub-expression is tied by AST correspondence on programs with yield/await injected",
    ]
    rng = random.Random(chk.seed * 3 + 8)
    bases = list(BASES)
    for _ in range(4 if chk.tier == "quick" else 60):
        b, pl = gen_cf.random_skeleton(rng, 3)
        bases.append(gen_cf.program(b, pl))
    accepted, cases, corr_sources = [], 0, []
    kinds = {}
    for base in bases:
        for u in UNSUPPORTED_STMTS:
            for owner, pos, in_func, in_loop, scope, src in injections(base, u, need_module=(u == "from os import *")):
                if not cpython_compiles(src):
                    continue
                cases += 1
                chk.note_case(src)
                kinds[u.split()[0]] = kinds.get(u.split()[0], 0) + 1
                r = converts(src)
                if r is True:
                    accepted.append((u, owner, pos, src))
                if rng.random() < 0.03:
                    corr_sources.append(src)
        for u in IN_FUNCTION_ONLY:
            for owner, pos, in_func, in_loop, scope, src in injections(base, u, need_function=True):
                if not cpython_compiles(src):
                    continue
                cases += 1
                chk.note_case(src)
                kinds["yield"] = kinds.get("yield", 0) + 1
                if converts(src) is True:
                    accepted.append((u, owner, pos, src))
                if rng.random() < 0.05:
                    corr_sources.append(src)
        # programs CPython itself refuses: misplaced break/continue/return, second star
        for name, u in ILLEGAL.items():
            for owner, pos, in_func, in_loop, scope, src in injections(base, u):
                if cpython_compiles(src):
                    continue      # legally placed here
                try:
                    ast.parse(src)
                except SyntaxError:
                    continue
                cases += 1
                chk.note_case(src)
                kinds[name] = kinds.get(name, 0) + 1
                if converts(src) is True:
                    accepted.append((u, owner, pos, src))
                if rng.random() < 0.03:
                    corr_sources.append(src)
    for u, owner, pos, src in accepted[:50]:
        chk.add_violation("a script containing an unsupported (or illegally placed) construct was converted instead of rejected",
                          construct=u, where=f"{owner}[{pos}]", source=src)
    propkit.lower_correspondence(chk, corr_sources[:300], configs=[(False, False)], label="converter-on-rejected-programs")
    chk.samples = [{"construct": UNSUPPORTED_STMTS[0], "base": BASES[1]}]
    chk.coverage["input_distribution"] = {"injected_programs": cases, "by_construct": kinds, "base_programs": len(bases),
                                          "accepted": len(accepted)}
