"""C04 - the custom unparser preserves literals exactly and never emits a line break."""
import ast
import random

from harness import common, corpus, gen_lit, unparsecorr

VFILES = ["theories/Unparse.v", "theories/StrLit.v", "theories/SingleLine.v"]


def literal_exprs(tier, rng):
    es = []
    step = 1 if tier == "thorough" else 3
    for s in gen_lit.single_codepoints(step):
        es += list(gen_lit.string_contexts(s))
    for s in gen_lit.short_strings(4 if tier == "thorough" else 3):
        es += list(gen_lit.string_contexts(s))[:3 if tier == "quick" else 6]
    es += list(gen_lit.numbers())
    es += list(gen_lit.fstrings(3 if tier == "thorough" else 2))
    for _ in range(1500 if tier == "quick" else 20000):
        es.append(gen_lit.random_literal(rng))
    return es


def stdlib_literals(limit):
    out = []
    for fn, e in corpus.stdlib_expressions(limit, seed=4):
        for n in ast.walk(e):
            if isinstance(n, ast.JoinedStr) or (isinstance(n, ast.Constant) and not isinstance(n.value, (bool, type(None)))):
                out.append(n)
                break
    return out


def decoder_reference_check(chk, rng):
    """validate the reference decoder of StrLit.v against CPython on arbitrary literal bodies"""
    alphabet = ["\\", "'", '"', "n", "x", "u", "U", "0", "4", "a", "f", "{", "}", " ", "é", "\n", "N", "t", "8"]
    bodies = ["".join(rng.choice(alphabet) for _ in range(rng.randint(0, 7))) for _ in range(1500)]
    lines = []
    for b in bodies:
        q = rng.choice("'\"")
        lines.append((q, b, "(decode %d (%s))" % (ord(q), " ".join(str(ord(c)) for c in b))))
    ans = common.model_eval([l[2] for l in lines])
    agree = disagree = unmodelled = 0
    for (q, b, _), a in zip(lines, ans):
        try:
            import warnings
            with warnings.catch_warnings():
                warnings.simplefilter("error")
                py = ast.literal_eval(q + b + q)
                if not isinstance(py, str):
                    py = None
        except Exception:
            py = None
        m = common.decode_cps(a)
        chk.note_case(("decode", q, b))
        if m is None:
            unmodelled += 1      # the model refuses (octal, \N{..}, unknown escapes are not modelled): no claim
        elif py == m:
            agree += 1
        else:
            disagree += 1
            chk.add_broken("correspondence", "StrLit.decode accepts a literal body but CPython reads it differently",
                           repr({"quote": q, "body": b, "cpython": py, "model": m}))
    chk.coverage.setdefault("correspondence", {})["decoder_vs_cpython"] = {"agree": agree, "model_refuses": unmodelled, "disagree": disagree}


def run(chk, build, replay=None):
    common.standard_proof_part(chk, build, VFILES)
    chk.trusted += [
        "C04: StrLit.decode/fdecode are reference decoders written from the language reference (escape sequences, brace "
        "doubling); validated against ast.literal_eval on random literal bodies each run, not verified",
        "float/complex/bytes constants are opaque: their text is CPython's repr (float(repr(x)) == x is trusted); "
        "identifiers are assumed ASCII by the harness",
        "the round trip of f-string *structure* (fields, conversions, specs) is decided here by reparsing with CPython "
        "(support), the theorem covers literal text and the one-line property",
    ]
    rng = random.Random(chk.seed * 101 + 4)
    es = literal_exprs(chk.tier, rng) + stdlib_literals(60 if chk.tier == "quick" else None)
    diffs, stats, texts = unparsecorr.compare(es)
    chk.coverage.setdefault("correspondence", {})["unparser_strings"] = dict(stats, disagreements=len(diffs))
    if diffs:
        chk.add_broken("correspondence", f"Unparse.unparse and expr_unparse print {len(diffs)} literal trees differently",
                       repr(diffs[0]))
    nwf = 0
    for e, t in zip(es, texts):
        chk.note_case(ast.dump(e))
        if t is None:
            continue
        if "\n" in t or "\r" in t:
            chk.add_violation("line break in the unparsed text", expr=ast.dump(e)[:800], text=t[:300])
            continue
        if not unparsecorr.wf_expr(e):
            continue
        nwf += 1
        ok, why = unparsecorr.roundtrip_ok(e, t)
        if not ok:
            chk.add_violation("literal / f-string does not parse back to the identical value and structure",
                              expr=ast.dump(e)[:800], text=t[:300], detail=why[:500])
    decoder_reference_check(chk, rng)
    chk.samples = [{"expr": ast.dump(e)[:200], "text": t} for e, t in list(zip(es, texts))[100:104]]
    chk.coverage["input_distribution"] = {"literal_trees": len(es), "well_formed_round_tripped": nwf}
