"""C06 - every name resolves to the same variable after lowering of scopes."""
import random
import sys

from harness import common, diffexec, gen_scope, hostrun, lowercorr, propkit, sexp

VFILES = ["theories/Namespace.v", "theories/Lower.v", "theories/Scope.v", "theories/ScopeTree.v"]

# CPython 3.12/3.13 (PEP 709) compile a comprehension into the enclosing function; when that function is a lambda that
# also READS a free variable with the name of the comprehension's target (in a second comprehension or a nested lambda)
# the interpreter raises "cannot access local/free variable" - plain `def` code shows the same (see DESIGN.md).  The
# converted class body is such a lambda.  A difference is attributed to this interpreter defect only if BOTH hold: the
# converted program fails with exactly that message, and the same pair agrees on an interpreter without PEP 709.
HOST_BUG_MARK = ("cannot access local variable", "cannot access free variable")
PRE_709 = "3.11.7"


def scope_programs(chk):
    rng = random.Random(chk.seed * 101 + 6)
    progs, shapes = [], {}
    seen = set()

    def add(tree):
        k = tree.key()
        if k in seen:
            return
        seen.add(k)
        src = gen_scope.render(tree)
        if gen_scope.accepted(src):
            progs.append(src)
            d = tree.depth()
            shapes[f"depth{d}"] = shapes.get(f"depth{d}", 0) + 1

    # exhaustive: module > one scope > one scope (every kind x every role)
    for t in gen_scope.enum_trees("module", 2, 1):
        add(t)
    n2 = len(progs)
    # exhaustive: methods whose implicit __class__ cell precedes the name among their free variables
    for t in gen_scope.method_trees():
        add(t)
    n_meth = len(progs) - n2
    # exhaustive: every binder of an expression scope below every storage form of a same-named function variable
    for t in gen_scope.binder_trees():
        add(t)
    n_bind = len(progs) - n2 - n_meth
    # exhaustive: a reader (global / free / nonlocal / class / lambda / comprehension) several SILENT function levels below the owner
    for t in gen_scope.chain_trees():
        add(t)
    n_chain = len(progs) - n2 - n_meth - n_bind
    n_exh = len(progs)
    n_rand = 800 if chk.tier == "quick" else 12000
    tries = 0
    while len(progs) < n_exh + n_rand and tries < n_rand * 40:
        tries += 1
        add(gen_scope.random_tree(rng, "module", rng.choice([3, 3, 4]), 2))
    return progs, {"exhaustive_depth2_chains": n2, "exhaustive_method_classref_trees": n_meth, "exhaustive_inner_binder_trees": n_bind, "exhaustive_silent_chain_trees": n_chain, "random_trees": len(progs) - n_exh, "by_depth": shapes,
                   "candidates_rejected_by_cpython": len(seen) - len(progs)}


def scope_ok_lines(sources):
    lines = []
    for s in sources:
        import symtable
        st = symtable.symtable(s, "<src>", "exec")
        lines.append(f"(scope-ok {'1' if sys.version_info < (3, 12) else '0'} {sexp.symtab(st)})")
    return lines


def run(chk, build, replay=None):
    common.standard_proof_part(chk, build, VFILES)
    chk.trusted += [
        "C06: the symbol flags (is_local / is_global / is_declared_global / is_free / is_nonlocal, get_frees, get_nonlocals) "
        "are CPython's symtable output and are input data of the model; their consistency conditions (Scope.sym_ok, "
        "Scope.maps_ok, Scope.dict_ok) are evaluated by the model on every explored symbol table, not proved of CPython",
        "C06: Scope.name_cell (a plain name inside nested lambdas denotes the nearest enclosing lambda that binds it) is a "
        "model of CPython's closure semantics for the converted program, validated by the differential oracle",
    ]
    replayed = propkit.load_replay_sources(replay)
    if replayed:
        progs, dist = replayed, {"replayed": len(replayed)}
    else:
        progs, dist = scope_programs(chk)
    chk.coverage["input_distribution"] = dist
    rng = random.Random(chk.seed + 66)
    sample = progs if len(progs) <= 500 else rng.sample(progs, 500 if chk.tier == "quick" else 3000)
    # tie: model vs converter on scope-heavy programs
    propkit.lower_correspondence(chk, sample, configs=[(False, False)], label="converter(scope trees)")
    # the theorems' hypotheses on the real symbol tables
    answers = common.model_eval(scope_ok_lines(sample))
    bad_ok, nsps, names = [], 0, 0
    for s, a in zip(sample, answers):
        chk.note_case(("scope-ok", s))
        if a.startswith("(ok (1 "):
            parts = a[len("(ok (1 "):].split()
            nsps += int(parts[0])
            names += int(parts[1])
        else:
            bad_ok.append((s, a[:200]))
    chk.coverage["hypotheses_checked"] = {"programs": len(sample), "namespaces": nsps, "names": names, "failed": len(bad_ok)}
    if bad_ok:
        chk.add_broken("hypothesis", f"Scope.tree_ok is false on {len(bad_ok)} symbol tables (sym_ok / maps_ok / dict_ok)",
                       __import__("json").dumps({"source": bad_ok[0][0], "answer": bad_ok[0][1]}))
    # direct oracle: output and final module namespace
    triples = [("oneliner", "list", "if_expr")]
    res = diffexec.run_many(progs, triples)
    extra = rng.sample(progs, min(len(progs), 300 if chk.tier == "quick" else 2000))
    res_extra = diffexec.run_many(extra, [t for t in diffexec.ALL_CONFIGS if t != triples[0]])
    counts, suspects = {}, []
    for src, r in list(zip(progs, res)) + list(zip(extra, res_extra)):
        chk.note_case(("scope", src))
        for tr, st, detail in r:
            counts[st] = counts.get(st, 0) + 1
            if st != "same":
                suspects.append((src, tr, st, detail))
    host_bug = 0
    if suspects:
        # re-run the suspects on an interpreter without comprehension inlining
        exe = hostrun.hosts().get(PRE_709)
        by_src = {}
        for s in suspects:
            by_src.setdefault(s[0], []).append(s)
        pre = {}
        if exe:
            srcs = list(by_src)
            _, r311 = hostrun.run_on(exe, srcs, diffexec.ALL_CONFIGS)
            for s, r in zip(srcs, r311):
                pre[s] = {tuple(tr): st for tr, st, _ in r}
        # the other face of the same interpreter defect: no exception, the SCRIPT itself leaks a comprehension variable on 3.12+
        import sys as _sys
        leak = hostrun.pep709_source_defect([(s, tr) for s, tr, st, _ in suspects if st == "differs"], _sys.executable)
        for src, tr, st, detail in suspects:
            if st == "differs" and any(m in detail for m in HOST_BUG_MARK) and pre.get(src, {}).get(tuple(tr)) == "same":
                host_bug += 1
                continue
            if st == "differs" and (src, tuple(tr)) in leak:
                host_bug += 1
                continue
            chk.add_violation("a name refers to a different variable in the converted program (output or final namespace differs)",
                              source=src, body=src[len(gen_scope.HELPER):], config=tr, status=st, detail=detail)
    counts["attributed-to-cpython-pep709-defect"] = host_bug
    chk.coverage.setdefault("direct_oracle", {}).update(counts)
    # the symbol tables differ between interpreters: the same programs on the other hosts that can run the converter
    host_cov = {}
    n_host = 400 if chk.tier == "quick" else 4000
    hs = rng.sample(progs, min(len(progs), n_host))
    for v, exe in hostrun.hosts().items():
        major = tuple(int(x) for x in v.split(".")[:2])
        if major < (3, 10) or v.startswith("3.12"):
            continue
        ver, rr = hostrun.run_on(exe, hs, triples)
        c = {}
        leak = set()
        if major >= (3, 12):
            leak = hostrun.pep709_source_defect([(src, tr) for src, r in zip(hs, rr) for tr, st, _ in r if st == "differs"], exe)
        for src, r in zip(hs, rr):
            for tr, st, detail in r:
                if st == "differs" and major >= (3, 12) and (any(m in detail for m in HOST_BUG_MARK) or (src, tuple(tr)) in leak):
                    st = "attributed-to-cpython-pep709-defect"
                c[st] = c.get(st, 0) + 1
                if st not in ("same", "source-raises", "attributed-to-cpython-pep709-defect"):
                    chk.add_violation(f"a name refers to a different variable in the converted program on CPython {v}",
                                      source=src, body=src[len(gen_scope.HELPER):], config=tr, host=v, status=st, detail=detail)
        host_cov[v] = c
    chk.coverage["hosts"] = host_cov
    chk.samples = [{"source": p[len(gen_scope.HELPER):]} for p in progs[:3] + progs[-3:]]
