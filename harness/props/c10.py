"""C10 - conversion is a pure function of (source, options) up to fresh-name choice."""
import itertools
import json
import os
import random
import re
import subprocess
from concurrent.futures import ThreadPoolExecutor

from harness import common

VFILES = ["theories/Config.v", "theories/ConfigProof.v"]

PROGRAMS = [
    # two captured parameters: the seed dictionary used to be built in set order
    "def f(alpha, beta, gamma):\n    def g():\n        return alpha + beta + gamma\n    return g()\nprint(f(1, 2, 3))\n",
    # control flow with helper temporaries
    "i = 0\nwhile True:\n    i += 1\n    if i > 3:\n        break\nelse:\n    print('no')\nfor j in range(3):\n    if j == 1:\n        continue\n    print(j)\n",
    # class, import, destructuring
    "import os.path as p\nclass A:\n    x = 1\n    def m(self, q, r):\n        return [lambda: q, lambda: r]\na, *b = [1, 2, 3]\nprint(A().m(1, 2)[0](), a, b)\n",
    # several names imported by one from-import, several captured variables of one function
    "from os.path import join, split, basename as bn, dirname\nimport os.path as p, json as j\ndef mk(a, b, c, d):\n    def inner():\n        return (a, b, c, d)\n    return inner()\nprint(bn(join('x', 'y')), split('a/b'), dirname('c/d'), mk(1, 2, 3, 4))\n",
    # for + break / return inside a for: the generated code carries the iterator-wrapper preset (a module-level AST of the package)
    "for q in [1, 2, 3]:\n    if q == 2:\n        break\n    print(q)\nelse:\n    print('none')\ndef first(xs):\n    for x in xs:\n        if x:\n            return x\n    return None\nprint(first([0, 3]))\n",
]

# scripts the converter refuses, each in the MIDDLE of converting something (a nested expression, a nested block): a refused
# conversion must leave nothing behind either
FAILING = [
    "total = 1\ntotal = total + (yield total)\n",
    "def g():\n    received = None\n    while True:\n        received = str((yield received))\n",
    "import asyncio\nprint('x', [1, (await asyncio.sleep(0))])\n",
    "y = []\nx = [0, [i async for i in y]][0]\n",
    "class Q:\n    pass\nq = Q()\na, b = 1, [q.z for q.z in [1]]\n",
    "def h(v):\n    for i in v:\n        if i:\n            try:\n                pass\n            finally:\n                pass\n    return v\n",
    "x = {'k': (lambda: (yield))}\nwhile x:\n    if x:\n        break\n    del x\n",
]

OPTS = {"unparser": ["ast.unparse", "oneliner"], "expr_wrapper": ["list", "chain_call"],
        "if_style": ["if_expr", "short_circuit"]}
NAMES = ["unparser", "expr_wrapper", "if_style"]
BAD_VALUES = ["", "lists", "oneliner ", "None"]


def gen_history(rng, maxlen=7):
    n = rng.randint(2, maxlen)
    h = []
    nobj = 0
    alive = []
    for i in range(n):
        r = rng.random()
        if not alive and r < 0.8 or r < 0.15:
            h.append(["new"])
            alive.append(nobj)
            nobj += 1
        elif r < 0.5 and alive:
            name = rng.choice(NAMES)
            if rng.random() < 0.15:
                val = rng.choice(BAD_VALUES + OPTS[rng.choice(NAMES)])
            else:
                val = rng.choice(OPTS[name])
            h.append(["set", rng.choice(alive), name, val])
        elif r < 0.85:
            o = None if (not alive or rng.random() < 0.3) else rng.choice(alive)
            h.append(["convert", o, rng.randrange(len(PROGRAMS))])
        elif r < 0.93 and alive:
            h.append(["drop", alive.pop(rng.randrange(len(alive)))])
        else:
            h.append(["reseed", rng.randrange(1000)])
    if not any(a[0] == "convert" for a in h):
        h.append(["convert", None if not alive else rng.choice(alive), rng.randrange(len(PROGRAMS))])
    return h


def exhaustive_histories():
    """all histories new,new, then 2 actions from a reduced alphabet, then convert on each object and None"""
    alpha = []
    for o in (0, 1):
        for name in NAMES:
            alpha.append(["set", o, name, OPTS[name][1 - (OPTS[name].index(DEFAULTS[name]))]])
            alpha.append(["set", o, name, DEFAULTS[name]])
        alpha.append(["set", o, "unparser", "bogus"])
    alpha.append(["reseed", 1])
    for a, b in itertools.product(alpha, repeat=2):
        yield [["new"], ["new"], a, b, ["convert", 0, 0], ["convert", 1, 0], ["convert", None, 0]]


def structured_histories():
    """convert / change one option / convert again on the same object, for every option, direction and program;
    with a second object and option-less calls interleaved"""
    for pi in range(len(PROGRAMS)):
        for name in NAMES:
            for v1, v2 in (OPTS[name], OPTS[name][::-1]):
                yield [["new"], ["set", 0, name, v1], ["convert", 0, pi], ["set", 0, name, v2], ["convert", 0, pi],
                       ["convert", None, pi]]
                yield [["new"], ["new"], ["convert", 0, pi], ["set", 1, name, v2], ["convert", 1, pi], ["convert", 0, pi]]
                yield [["new"], ["convert", 0, pi], ["set", 0, name, v2], ["reseed", 7], ["convert", 0, pi],
                       ["convert", None, pi]]
                # a helper makes its own options object, converts and forgets it; then a fresh object and an option-less call
                yield [["new"], ["set", 0, name, v2], ["convert", 0, pi], ["drop", 0], ["new"], ["convert", 1, pi],
                       ["convert", None, pi]]
                yield [["churn", name, v2, 64], ["convert", None, pi], ["new"], ["convert", 0, pi]]
                # two LIVE objects: the same value stored on both, one after the other; a value that travels a -> b -> a
                yield [["new"], ["new"], ["set", 0, name, v2], ["set", 1, name, v2], ["convert", 0, pi], ["convert", 1, pi],
                       ["convert", None, pi]]
                yield [["new"], ["new"], ["set", 0, name, v1], ["set", 1, name, v2], ["set", 0, name, v2], ["convert", 0, pi],
                       ["set", 1, name, v1], ["set", 1, name, v1], ["convert", 1, pi], ["convert", None, pi]]
                yield [["new"], ["new"], ["set", 0, name, v2], ["set", 1, name, v2], ["drop", 0], ["drop", 1], ["convert", None, pi],
                       ["new"], ["new"], ["new"], ["convert", 2, pi], ["convert", 3, pi], ["convert", 4, pi]]


def cross_program_histories():
    """one program converted with a non-default option, then ANOTHER program with a fresh object and with no options:
    anything the first conversion leaves behind in the package (caches, shared ASTs, class-level tables) shows here"""
    for pa in range(len(PROGRAMS)):
        for pb in range(len(PROGRAMS)):
            for name in NAMES:
                v2 = OPTS[name][1 - OPTS[name].index(DEFAULTS[name])]
                yield [["new"], ["set", 0, name, v2], ["convert", 0, pa], ["new"], ["convert", 1, pb], ["convert", None, pb],
                       ["convert", 0, pb]]


def failed_conversion_histories():
    """a conversion that RAISES (with and without options), then ordinary conversions: the next calls must not see it"""
    for fi in range(len(FAILING)):
        for pb in range(len(PROGRAMS)):
            yield [["fail", None, fi], ["convert", None, pb], ["convert", None, pb]]
            for name in NAMES:
                v2 = OPTS[name][1 - OPTS[name].index(DEFAULTS[name])]
                yield [["new"], ["set", 0, name, v2], ["fail", 0, fi], ["convert", 0, pb], ["convert", None, pb]]
                yield [["new"], ["fail", None, fi], ["set", 0, name, v2], ["convert", 0, pb], ["fail", 0, fi], ["convert", None, pb]]


DEFAULTS = {"unparser": "ast.unparse", "expr_wrapper": "chain_call", "if_style": "if_expr"}


def hist_sexp(h):
    parts = []
    for a in h:
        if a[0] == "new":
            parts.append("(new)")
        elif a[0] == "set":
            enc = lambda t: "(" + " ".join(str(b) for b in t.encode()) + ")"
            parts.append(f"(set {a[1]} {enc(a[2])} {enc(a[3])})")
        elif a[0] == "convert":
            parts.append("(convert %s)" % ("()" if a[1] is None else f"({a[1]})"))
        else:
            parts.append("(reseed)")          # reseed / drop: no effect on the options of any object (one output slot)
    return "(cfg-hist (%s))" % " ".join(parts)


def parse_outputs(ans):
    """(ok ((out...) (out...))) -> (per_instance, shared) lists of python values"""
    from harness.sexp import read
    try:
        x = read(ans)
    except ValueError:
        return None
    if not (isinstance(x, list) and x and x[0] == "ok"):
        return None

    def outs(l):
        res = []
        for o in l:
            if o[0] == "none":
                res.append(None)
            elif o[0] == "set":
                res.append("ok" if o[1] == "1" else "ValueError")
            else:
                res.append({k[1:]: v[1:] for k, v in o[1:]})
        return res
    return outs(x[1][0]), outs(x[1][1])


def run_real(histories, hashseed="0"):
    """each history in its own fresh interpreter"""
    def one(h):
        env = common.child_env(PYTHONHASHSEED=hashseed)
        p = subprocess.run([common.PY, "-W", "ignore", os.path.join(common.VERIF, "harness", "impl", "c10_worker.py")],
                           input=json.dumps({"history": h, "programs": PROGRAMS, "failing": FAILING}) + "\n",
                           capture_output=True, text=True, env=env, timeout=300)
        try:
            return json.loads(p.stdout.strip().splitlines()[-1])
        except Exception:
            return ["CRASH:" + p.stderr[-500:]]
    with ThreadPoolExecutor(common.NCPU) as ex:
        return list(ex.map(one, histories))


def reference_texts():
    """(program, option triple) -> text, each from a fresh process with its own hash seed and random seed"""
    jobs, keys = [], []
    for pi in range(len(PROGRAMS)):
        for triple in itertools.product(*[OPTS[n] for n in NAMES]):
            h = [["reseed", 12345 + pi], ["new"]] + [["set", 0, n, v] for n, v in zip(NAMES, triple)] + [["convert", 0, pi]]
            jobs.append(h)
            keys.append((pi, triple))
    ref = {}
    for seed in ("1", "77"):
        outs = run_real(jobs, hashseed=seed)
        for k, o in zip(keys, outs):
            last = o[-1]
            text = last["text"] if isinstance(last, dict) else repr(last)
            ref.setdefault(k, set()).add(text)
    return ref


def run(chk, build, replay=None):
    common.standard_proof_part(chk, build, VFILES)
    chk.trusted += [
        "C10 model: Config.v is a hand-written model of oneliner/config.py (option table generated from the code); "
        "tie = histories executed by the model and by the real API in fresh interpreters",
        "independence from the random generator and from the string-hash seed is not a theorem: it is checked by "
        "comparing every conversion with fresh-process conversions under other PYTHONHASHSEED/random seeds",
    ]
    rng = random.Random(chk.seed * 7919 + 10)
    corpus = [
        [["new"], ["new"], ["set", 0, "unparser", "oneliner"], ["convert", 1, 0], ["convert", None, 0]],
        [["new"], ["set", 0, "expr_wrapper", "list"], ["new"], ["convert", 1, 1], ["convert", 0, 1]],
        [["new"], ["set", 0, "if_style", "bogus"], ["convert", 0, 1], ["reseed", 5], ["convert", 0, 1]],
        [["convert", None, 0], ["reseed", 3], ["convert", None, 0], ["new"], ["set", 0, "unparser", "oneliner"], ["convert", None, 0]],
    ]
    if replay:
        data = json.load(open(replay))
        v = data.get("violation", {})
        if "history" in v:
            corpus = [v["history"]]
    nrand = 120 if chk.tier == "quick" else 1500
    failing = list(failed_conversion_histories())
    if chk.tier == "quick":
        failing = failing[::3]
    hists = list(corpus) + list(structured_histories()) + list(cross_program_histories()) + failing + \
        [gen_history(rng) for _ in range(nrand)]
    if chk.tier == "thorough":
        hists += list(exhaustive_histories())
    else:
        hists += list(exhaustive_histories())[chk.seed % 4::4]
    answers = common.model_eval([hist_sexp(h) for h in hists])
    real = run_real(hists)
    ref = reference_texts()
    nondet = {k: v for k, v in ref.items() if len(v) != 1}
    for k, v in list(nondet.items())[:1]:
        chk.add_violation("conversion text depends on the process (hash seed / random seed) beyond __ol_ renaming",
                          program=PROGRAMS[k[0]], options=dict(zip(NAMES, k[1])), texts=sorted(v)[:2])
    kinds = {}
    for h, ans, r in zip(hists, answers, real):
        chk.note_case(h)
        for a in h:
            kinds[a[0]] = kinds.get(a[0], 0) + 1
        po = parse_outputs(ans)
        if po is None or len(po[0]) != len(h):
            chk.add_broken("model", "model could not evaluate a history", ans[:300])
            continue
        model_out, shared_out = po
        # (1) correspondence model <-> implementation and (2) direct oracle against fresh-process conversions
        mism = None
        for i, (a, mo) in enumerate(zip(h, model_out)):
            ro = r[i] if i < len(r) else "MISSING"
            if a[0] == "set":
                if a[2] in NAMES and ro != mo:
                    mism = (i, f"set returned {ro}, model says {mo}")
            elif a[0] == "churn":
                want = [[DEFAULTS[n] for n in NAMES]]
                if not (isinstance(ro, dict) and ro.get("fresh_option_values") == want):
                    mism = (i, f"fresh options objects do not read the defaults after other objects were dropped: {ro}")
            elif a[0] == "fail":
                if not (isinstance(ro, str) and ro.startswith("raised:")):
                    mism = (i, f"a script the converter refuses in a fresh process was handled differently here: {str(ro)[:200]}")
            elif a[0] == "convert":
                if not isinstance(ro, dict):
                    mism = (i, f"conversion failed: {ro}")
                    break
                want = tuple(mo[n] for n in NAMES)
                if ro["eff"] is not None and tuple(ro["eff"]) != want:
                    mism = (i, f"option values read from the object {ro['eff']} differ from the last values set on it {list(want)}")
                elif ro["text"] not in ref[(a[2], want)]:
                    mism = (i, "conversion text differs from the same call made in a fresh process with options "
                               f"{dict(zip(NAMES, want))}")
            if mism:
                break
        if mism:
            chk.add_violation("history on which a conversion does not depend only on (source, options of that call)",
                              history=h, step=mism[0], detail=mism[1], programs=PROGRAMS,
                              shared_cell_model_predicts_this=(shared_out != model_out))
    chk.samples = [{"history": h} for h in hists[:4]]
    chk.coverage.update({"input_distribution": {"histories": len(hists), "actions_by_kind": kinds,
                                                "reference_conversions": len(ref) * 2},
                         "exhaustive": False})
