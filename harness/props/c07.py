"""C07 - each source subexpression is evaluated once, in Python's order."""
import itertools
import random

from harness import common, diffexec, gen_order, propkit

VFILES = ["theories/Namespace.v", "theories/Lower.v", "theories/FuncDef.v", "theories/EvalOrder.v"]

PRELUDE = '''
LOG = []
class Obj:
    def __init__(self, k): self.k = k; self.d = {}
    def __setitem__(self, i, v): LOG.append(('setitem', self.k)); self.d[repr(i)] = v
    def __getitem__(self, i): LOG.append(('getitem', self.k)); return self.d.get(repr(i), 0)
    def __setattr__(self, n, v):
        if n not in ('k', 'd'): LOG.append(('setattr', self.k, n))
        object.__setattr__(self, n, v)
    def __iter__(self): LOG.append(('iter', self.k)); return iter([1, 2, 3])
    def __call__(self, f): LOG.append(('apply', self.k)); return f
    def __index__(self): return self.k
    def __hash__(self): return self.k
    def __eq__(self, o): return isinstance(o, Obj) and o.k == self.k
    def __add__(self, o): return self
    __sub__ = __mul__ = __matmul__ = __truediv__ = __mod__ = __pow__ = __lshift__ = __rshift__ = __or__ = __xor__ = __and__ = __floordiv__ = __add__
    def __repr__(self): return f'Obj({self.k})'
def p(k):
    LOG.append(('eval', k))
    return Obj(k)
class Base:
    def __init_subclass__(cls, **kw): super().__init_subclass__()    # (class-creation hooks are outside the property)
class Base2:
    pass
def pb(k):
    LOG.append(('eval', k))
    return Base if k % 2 else Base2
class Meta(type):
    def __new__(mcs, name, bases, ns, **kw): return super().__new__(mcs, name, bases, ns)
    def __init__(cls, name, bases, ns, **kw): super().__init__(name, bases, ns)
def pm(k):
    LOG.append(('eval', k))
    return Meta
def pk(k):
    LOG.append(('eval', k))
    return {'kw9': k}
SHARED = Obj(0)
object.__setattr__(SHARED, 'a', 1)
def po(k):
    LOG.append(('eval', k))
    return SHARED
'''
OPS = ["+", "-", "*", "@", "/", "%", "**", "<<", ">>", "|", "^", "&", "//"]

GUARDED = {   # templates inside the domain where the theorem and the property hold on the current tree
    "expr": "p(1)",
    "call_args": "f = lambda *a, **k: None\nf(p(1), *[p(2)], k=p(3), **{'z': p(4)})",
    "assign_name": "x = p(1)",
    "assign_chain": "a = b = c = p(1)",
    "assign_tuple": "a, b, c = p(1)",
    "assign_starred": "a, *b = p(1)",
    "assign_nested": "(a, (b, *c)), d = [(1, [2, 3, 4]), p(1)][0:2] if p(2) else None",
    "assign_chain_pattern": "(a, b, c) = d = p(1)",
    # nested patterns are stored depth first, left to right (the nested pattern NOT last at its level)
    "assign_nested_targets": "(p(1).a, (p(2).b, p(3)[p(4)])), p(5).c = [[1, [2, 3]], 4]",
    "assign_nested_starred": "(p(1).a, *p(2).b), [p(3).c, p(4).d], p(5).e = [[1, 2, 3], [4, 5], 6]",
    "assign_nested_rebinding": "(a, b), a = (1, 2), 3\nc = d, (c, e), d = 7, (8, 9), 10\np(1)[a], p(2)[d] = b, e",
    "for_nested_targets": "for (p(1).a, p(2).b), p(3).c in [[(1, 2), 3]]:\n    p(4)",
    "def_defaults": "def f(a=p(1), b=p(2), *, c=p(3), d=p(4)):\n    return p(5)\nf()",
    "def_decorators": "@p(1)\n@p(2)\ndef f(a=p(3)):\n    return a",
    "lambda_defaults": "f = lambda a=p(1), *, b=p(2): p(3)\nf()",
    "class_header": "class K(pb(1), pb(2), kw=p(3), kw2=p(4)):\n    x = p(5)",
    # bases first, then the keywords in the order written - `metaclass=` among them, `**mapping` too
    "class_header_meta": "class K(pb(1), pb(2), metaclass=pm(5)):\n    x = p(6)",
    "class_header_meta_kw": "class K(pb(1), kw=p(2), metaclass=pm(3), kw2=p(4), **pk(5)):\n    x = p(6)",
    "class_header_meta_only": "class K(metaclass=pm(1)):\n    x = p(2)\nclass L(K, kw=p(3)):\n    y = p(4)",
    # no bases at all: the keywords still in the order written (a keyword BEFORE `metaclass=`, a `**mapping` before it)
    "class_header_kw_meta_nobase": "class K(kw=p(1), metaclass=pm(2), kw2=p(3)):\n    x = p(4)",
    "class_header_starkw_meta_nobase": "class K(**pk(1), metaclass=pm(2)):\n    x = p(3)\nclass L(kw=p(4), **pk(5), metaclass=pm(6)):\n    pass",
    "if_empty_body_else": "if p(1):\n    []\nelse:\n    p(2)\nif p(3):\n    ()\nelif p(4):\n    p(5)\nelse:\n    p(6)",
    "if_bare_return_else": "def f(v):\n    if p(v):\n        return\n    else:\n        p(2)\nf(1)\nf(0)",
    "if_bare_continue_else": "for k in (1, 0, 3):\n    if p(k):\n        continue\n    elif p(8):\n        p(9)\n    else:\n        p(10)",
    "if_header": "if p(1):\n    p(2)\nelif p(3):\n    p(4)\nelse:\n    p(5)",
    "while_header": "n = 0\nwhile p(1) and n < 2:\n    n += 1\nelse:\n    p(2)",
    "for_header": "for x in p(1):\n    p(2)\nelse:\n    p(3)",
    "for_break": "for x in p(1):\n    p(2)\n    break\nelse:\n    p(3)",
    "return_value": "def f():\n    return p(1)\nf()",
    "comprehension": "r = [p(2) for q in p(1) if p(3)]",
    "fstring": "s = f'{p(1)!r:>{p(2).k}}'",
    "assign_attr": "p(1).a = p(2)",
    "assign_sub": "p(3)[p(4)] = p(5)\np(6)[p(7):p(8)] = p(9)\np(10)[p(11), p(12):p(13)] = p(14)",
    "aug_attr": "po(2).a += 1\npo(3).a *= p(4).k",
    "aug_sub": "po(4)[p(5)] += 1\npo(6)[p(7):p(8)] += 1",
}
for _op in OPS:
    GUARDED["aug_name_" + _op] = f"x = p(1)\nx {_op}= p(2)"

KNOWN = {   # design-level deviations: listed in known_findings.json, re-confirmed on every run
    "K-class-decorator-late": "@p(1)\nclass K(pb(2)):\n    x = p(3)",
    "K-annotation-dropped": "x: p(1) = p(2)",
}


def _work(job):
    import sys
    sys.setrecursionlimit(20000)
    src, triples = job

    def run(mode, code):
        g = {"__name__": "__main__"}
        try:
            if mode == "exec":
                exec(compile(code, "<s>", "exec"), g)
            else:
                eval(compile(code, "<c>", "eval"), g)
            err = None
        except BaseException as e:
            err = type(e).__name__           # (the message may name `<<=` vs `<<`; the type is what the program can observe)
        # implicit truth tests of an already computed value are not subexpression evaluations: CPython itself elides
        # them in jump contexts (`while a and b:`), so they are compared by C01's oracle, not here
        return {"error": err, "log": [x for x in g.get("LOG", []) if x[0] != "bool"]}
    a = run("exec", src)
    out = []
    for tr in triples:
        try:
            text = diffexec.convert(src, tr)
        except Exception as e:
            out.append((tr, "convert-error", type(e).__name__ + ": " + str(e)[:100]))
            continue
        b = run("eval", text)
        if a == b:
            out.append((tr, "same" if a["error"] is None else "source-raises", str(a["error"])))
        else:
            out.append((tr, "differs", f"source log {a['log']} {a['error']} | converted log {b['log']} {b['error']}"[:700]))
    return out


def run(chk, build, replay=None):
    common.standard_proof_part(chk, build, VFILES)
    chk.trusted += [
        "C07: EvalOrder.v's left-to-right event semantics of the emitted expression forms and the statements' reference order "
        "(language reference 6.16, 7.2) are models of CPython, validated by the ordered probe logs of this check",
    ]
    names = list(GUARDED)
    progs = [PRELUDE + GUARDED[n] + "\n" for n in names]
    # the same statement forms as the body of a function (targets are locals), of a method-less class body (targets are
    # class members) and of a function whose locals are captured by a closure (targets live in the nonlocal dictionary)
    ind = lambda t: "\n".join("    " + l for l in t.split("\n"))
    for n in list(GUARDED):
        t = GUARDED[n]
        names.append(n + "@function"); progs.append(PRELUDE + "def w_():\n" + ind(t) + "\nw_()\n")
        names.append(n + "@class"); progs.append(PRELUDE + "class W_:\n" + ind(t) + "\n")
        if not n.startswith("aug_name_") or n in ("aug_name_+", "aug_name_**"):
            names.append(n + "@captured")
            progs.append(PRELUDE + "def w_():\n" + ind(t) + "\n    def peek_():\n        return (x, a, b, c, d, f)\n    return peek_\nw_()\n")
    replayed = propkit.load_replay_sources(replay)
    if replayed:
        progs, names = replayed, ["replay"] * len(replayed)
    propkit.lower_correspondence(chk, progs, configs=[(False, False), (True, True)])
    triples = diffexec.ALL_CONFIGS if chk.tier == "thorough" else [
        ("oneliner", "list", "if_expr"), ("ast.unparse", "chain_call", "short_circuit"), ("oneliner", "chain_call", "if_expr")]
    res = diffexec.pool().map(_work, [(p, triples) for p in progs], chunksize=2)
    counts = {}
    for n, p, r in zip(names, progs, res):
        chk.note_case(("order", n))
        for tr, st, detail in r:
            counts[st] = counts.get(st, 0) + 1
            if st != "same":
                chk.add_violation("a subexpression is evaluated a different number of times or in a different order",
                                  template=n, source=p, body=p[len(PRELUDE):] if p.startswith(PRELUDE) else p, config=tr, status=st, detail=detail)
    # random probe programs: every leaf a probe, every operation on a probe value logged with its operand ids
    n_rand = 1500 if chk.tier == "thorough" else 250
    rng = random.Random(chk.seed * 7919 + 7)
    rprogs, shapes = [], {}
    if not replayed:
        for _ in range(n_rand):
            body, sh = gen_order.program(rng)
            rprogs.append(gen_order.PRELUDE + body + "\n")
            for k, v in sh.items():
                shapes[k] = shapes.get(k, 0) + v
    propkit.lower_correspondence(chk, rprogs[:60], configs=[(False, False)], label="converter(random probe programs)")
    rres = diffexec.pool().map(_work, [(p, triples) for p in rprogs], chunksize=4)
    rcounts = {}
    for i, (p, r) in enumerate(zip(rprogs, rres)):
        chk.note_case(("random-order", i))
        for tr, st, detail in r:
            rcounts[st] = rcounts.get(st, 0) + 1
            if st == "differs":
                chk.add_violation("a subexpression is evaluated a different number of times or in a different order",
                                  template="random", source=p, body=p[len(gen_order.PRELUDE):], config=tr, status=st, detail=detail)
    chk.coverage["random_probe_programs"] = {"programs": len(rprogs), "outcomes": rcounts, "shape_counts": shapes}
    # known findings: each witness is re-run; it must still deviate (else note it)
    kf = {f["id"]: f for f in common.load_known().get("findings", []) if f["property"] == "C07"}
    for kid, body in KNOWN.items():
        r = _work((PRELUDE + body + "\n", [("oneliner", "list", "if_expr")]))
        if r[0][1] == "differs":
            if kid in kf:
                chk.known_hits.append((kid, kf[kid]["what"]))
            else:
                chk.add_violation("deviation in a class that is not a listed known finding", cls=kid, detail=r[0][2])
        else:
            chk.notes.append(f"{kid} no longer deviates ({r[0][1]})")
    chk.coverage.setdefault("direct_oracle", {}).update(counts)
    chk.samples = [{"template": n, "source": GUARDED.get(n, "")} for n in names[:5]]
    chk.coverage["input_distribution"] = {"templates": len(progs), "known_classes": list(KNOWN), "configs": len(triples)}
