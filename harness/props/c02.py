"""C02 - accepted input always yields one well-formed single-line expression."""
import random

from harness import common, corpus, diffexec, finding_classes, gen_assign, gen_cf, propkit

VFILES = ["theories/Unparse.v", "theories/StrLit.v", "theories/SingleLine.v", "theories/ParseTie.v"]


def _work(job):
    import sys
    sys.setrecursionlimit(50000)
    src, triples = job
    out = []
    for tr in triples:
        try:
            text = diffexec.convert(src, tr)
        except RecursionError:
            out.append((tr, "convert-recursion", "")); continue
        except Exception as e:
            out.append((tr, "rejected", type(e).__name__)); continue
        if "\n" in text or "\r" in text:
            out.append((tr, "newline", text[:200])); continue
        try:
            compile(text, "<o>", "eval")
            out.append((tr, "ok", ""))
        except RecursionError:
            out.append((tr, "compile-recursion", ""))
        except (SyntaxError, ValueError) as e:
            out.append((tr, "not-an-expression", f"{type(e).__name__}: {e} || {text[:300]}"))
    return out


EXTRA = [
    "import a.b.c\nimport os.path as p, sys\nfrom . import x\n",
    "x = [i for i in range(3)]\nfor i in x:\n    i += 1\n    (a, *b), c = [i, i], i\n",
    "def f(a, /, b=1, *c, d, e=2, **g):\n    global q\n    q = lambda z=a: (y := z)\n    return f'{a!r:>{b}}' '}'\n",
    "class A(B, metaclass=M, k=1):\n    x: int = 1\n    def m(self):\n        return super().m()\n",
    "def scale(value, *, factor):\n    return value * factor\ndef join(*, sep):\n    return sep\nclass S:\n    def sort(self, rows, *, key, reverse=False):\n        return key\nh = lambda *, a, b=1, c: a\n",
    "while x:\n    _ = 1\n    for _ in y:\n        break\n    else:\n        continue\n",
    "s = '\\n\\r\\u2028'\nt = b'\\n'\nu = f'{s}\\n{t!a}'\n",
    "try:\n    pass\nexcept E:\n    pass\n",
    "def g():\n    yield 1\n",
    "x = 1e999\ny = a[1:2, ::3]\nz = -1 ** 2\n",
    "ws = ['a', 'bb']\nm = max((len(w) for w in ws), default=0)\nn = sum((i for i in range(3)), **{})\no = f((x for x in ws), *ws)\n",
    "def h(p=1, /, q=2, *, r=3, **s):\n    return lambda u=p, /, v=q, *w, x=r: (u, v, w, x)\nk = lambda a=1, b=2, /: a\n",
    # every shape of index in a STORE target (slices, tuples of slices, tuples mixing slices with plain items and ...), in plain,
    # annotated, augmented, destructuring and loop-target position
    "m[:, 0] = v\nm[1, 2:4] = v\nm[..., 1:] = v\nm[::2, ::3] = v\nm[1:2] = v\nm[1, 2] = v\nm[(1, 2)] = v\nm[:] = v\n",
    "m[:, 0] += v\nm[1, 2:4] *= v\nm[..., 1:] |= v\nm[a:b, c] -= v\nm[1:2] += v\n",
    "m[:, 0]: int = v\na, m[:, 1] = v\n(m[0, :], b), c = v\nfor m[0, :] in v:\n    pass\nfor m[1:2, k], j in v:\n    pass\n",
    "def f(m, v):\n    m[:, 0] = v\n    m[i, j:k] += v\n    return m\nclass K:\n    m[:, 0] = v\n    m[1:, 2] += v\n",
]


def run(chk, build, replay=None):
    common.standard_proof_part(chk, build, VFILES)
    chk.trusted += [
        "C02: the one-line theorem is about the project's own unparser (model tied by string correspondence); "
        "the ast.unparse path is CPython's code and is only observed (an output with a line break falls back to the project's unparser)",
        "that the text is exactly one expression: theorem C02_core_output_is_one_expression_partial for output trees inside the "
        "core of C03 (counted in the evidence), CPython's compile() on every explored output otherwise (support)",
    ]
    rng = random.Random(chk.seed * 13 + 2)
    replayed = propkit.load_replay_sources(replay)
    srcs = []
    if replayed:
        srcs = replayed
    else:
        srcs += EXTRA
        from harness import features as _features
        srcs += list(_features.PROGRAMS.values())
        nfiles = 80 if chk.tier == "quick" else None
        for fn, s in corpus.stripped_stdlib_sources(nfiles, seed=chk.seed + 5):
            srcs.append(s)
        for _ in range(200 if chk.tier == "quick" else 3000):
            b, pl = gen_cf.random_skeleton(rng, 3)
            srcs.append(gen_cf.program(b, pl))
        for _ in range(100 if chk.tier == "quick" else 1000):
            srcs.append(gen_assign.destructure_program(rng))
        # f-strings: every conversion x format-spec shape x value shape (among them values whose text starts with a brace)
        import ast as _a
        from harness import gen_lit
        lits = list(gen_lit.fstrings(1 if chk.tier == "quick" else 2))
        for e in (lits if chk.tier == "thorough" else lits[::2]):
            try:
                text = _a.unparse(_a.fix_missing_locations(_a.Expression(body=e)))
            except Exception:
                continue
            if "yield" not in text:
                srcs.append(f"r = {text}\n")
    # the converter model is tied on the same inputs
    propkit.lower_correspondence(chk, [s for s in srcs if len(s) < 20000][:400 if chk.tier == "quick" else 4000],
                                 configs=[(False, False), (True, True)])
    triples = diffexec.ALL_CONFIGS
    res = diffexec.pool().map(_work, [(s, triples) for s in srcs], chunksize=2)
    counts = {}
    known = 0
    for s, r in zip(srcs, res):
        chk.note_case(("c02", s))
        for tr, st, detail in r:
            counts[st] = counts.get(st, 0) + 1
            if st in ("newline", "not-an-expression"):
                if st == "not-an-expression" and finding_classes.walrus_in_loop_header(s) and \
                        "comprehension iterable expression" in detail:
                    known += 1
                    continue
                chk.add_violation("conversion returned text that is not a single-line expression",
                                  source=s[:3000], config=tr, status=st, detail=detail[:600])
    # how many of the explored outputs the "exactly one expression" theorem applies to (the core of C03)
    import ast as _ast
    import symtable as _symtable
    import sys as _sys
    from harness import coretok, lowercorr
    import oneliner  # noqa
    conv = _sys.modules["oneliner.convert"].convert
    n_out = n_core = 0
    for s in srcs[:300]:
        for chain, short in ((False, False), (True, True)):
            try:
                out = conv(_ast.parse(s), _symtable.symtable(s, "<s>", "exec"), lowercorr.make_configs(chain, short))
                n_out += 1
                n_core += bool(coretok.core_top_py(out))
            except (Exception, RecursionError):
                continue
    chk.coverage["outputs_inside_the_core_of_the_one_expression_theorem"] = {"outputs": n_out, "inside": n_core}
    # how many explored PROGRAMS satisfy the hypothesis of the whole-program theorem (C02_module_output_is_one_expression):
    # stmt_ok is evaluated by the model itself; for those inside, the theorem's conclusion is also checked on the real output
    # (the real converter's tree must be in the core: a program inside the hypothesis whose real output falls outside the core
    # contradicts the theorem or the model/code tie)
    from harness import sexp as _sexp
    lines, inside_srcs = [], []
    for s in srcs[:600 if chk.tier == "quick" else 4000]:
        if len(s) > 20000:
            continue
        try:
            lines.append((s, f"(stmt-ok {_sexp.block(_ast.parse(s).body)})"))
        except (Exception, RecursionError):
            continue
    answers = common.model_eval([l for _, l in lines])
    n_in = n_out_h = n_bad = 0
    contradictions = []
    for (s, _), a in zip(lines, answers):
        if a == "(ok 1)":
            n_in += 1
            inside_srcs.append(s)
        elif a == "(ok 0)":
            n_out_h += 1
        else:
            n_bad += 1
    for s in inside_srcs:
        for chain, short in ((False, False), (True, True)):
            try:
                out = conv(_ast.parse(s), _symtable.symtable(s, "<s>", "exec"), lowercorr.make_configs(chain, short))
            except (Exception, RecursionError):
                continue
            chk.note_case(("stmt-ok-output", s, chain, short))
            if not coretok.core_top_py(out):
                contradictions.append((s, chain, short))
    chk.coverage["programs_inside_the_hypothesis_of_the_whole_program_theorem"] = {
        "programs": len(lines), "inside": n_in, "outside": n_out_h, "undecoded": n_bad,
        "inside_whose_real_output_is_outside_the_core": len(contradictions)}
    for s, chain, short in contradictions[:5]:
        chk.add_broken("correspondence", "a program inside the hypothesis of C02_module_output_is_one_expression is converted by "
                       "the real converter to a tree outside the core (the theorem, through the model, says it is inside)",
                       __import__("json").dumps({"source": s[:3000], "chain_call": chain, "short_circuit": short}))
    counts["known-finding-instances"] = known
    chk.coverage.setdefault("direct_oracle", {}).update(counts)
    propkit.replay_known(chk, "C02")
    chk.samples = [{"source": s[:200]} for s in srcs[:2] + srcs[-2:]]
    chk.coverage["input_distribution"] = {"programs": len(srcs), "configs": len(triples)}
