"""C12 - classes keep their members, bases, metaclass, method kinds and super()."""
import random

from harness import common, diffexec, gen_class, gen_place, propkit

VFILES = ["theories/Namespace.v", "theories/Lower.v", "theories/ClassNs.v"]

EXTRA = [
    # methods defined under class-body control flow and using zero-argument super()
    gen_class.OBSERVE + gen_class.BASE_DEFS +
    "FANCY = True\nclass K(B):\n    if FANCY:\n        def chain(self):\n            return ['K'] + super().chain()\n    else:\n        def chain(self):\n            return []\n"
    "class G(K):\n    for _n in ('p', 'q'):\n        def chain(self, _n=_n):\n            return [_n] + super().chain()\n_show(K)\nprint(K().chain(), G().chain())\n",
    gen_class.OBSERVE + gen_class.BASE_DEFS +
    "class Outer:\n    class Inner(C):\n        if True:\n            def chain(self):\n                return ['I'] + super().chain()\n    def mk(self):\n        return self.Inner().chain()\nprint(Outer().mk())\n",
]


EXTRA += [
    # zero-argument super() in methods whose first parameter is positional-only, with further parameters behind the `/`
    gen_class.OBSERVE + gen_class.BASE_DEFS +
    "class P(B):\n    def chain(self, /, other=None, *rest, tag='t'):\n        return ['P', tag] + super().chain()\n"
    "    def twice(self, /, other):\n        out = []\n        for _ in range(2):\n            out.append(super().chain())\n        return out, other\n"
    "    @classmethod\n    def make(cls, /, label):\n        return (label, cls.__name__, super().__init_subclass__())\n"
    "_show(P)\nprint(P().chain(P()), P().twice('o'), P.make('L'))\n",
    gen_class.OBSERVE + gen_class.BASE_DEFS +
    "class Q(C):\n    def __init__(self, /, name, *, flag=False):\n        super().__init__()\n        self.name = name\n"
    "    def chain(self, other, /):\n        return ['Q', other] + super().chain()\nq = Q('n')\nprint(q.name, q.chain('x'))\n",
]


EXTRA += [
    # a class body that READS a name it also assigns, inside a function owning a variable of that name: the read goes to the
    # class namespace, then to the GLOBALS - never to the enclosing function (members and the branches taken depend on it)
    gen_class.OBSERVE +
    "label = 'global-label'\nsize = 10\nlevel = 1\n"
    "def make(label, size=3):\n    level = 50\n    class Pen:\n        label = label + '!'\n        size = size\n        level += 1\n"
    "        if level > 50:\n            big = True\n        else:\n            big = False\n"
    "        def show(self):\n            return (self.label, self.size, self.level, self.big)\n    return Pen, (label, size, level)\n"
    "P, seen = make('param-label')\n_show(P)\nprint(P().show(), seen)\n",
    gen_class.OBSERVE +
    "tag = 'g'\nclass Outer:\n    def build(self, tag):\n        class Inner:\n            tag = tag * 2\n            names = [tag]\n"
    "            @property\n            def t(self):\n                return self.tag\n        return Inner\n"
    "I = Outer().build('m')\n_show(I)\nprint(I().t, I.names)\n",
]


EXTRA += [
    # a class body (also under its control flow, in a nested class, in a comprehension of the body) that reads a PARAMETER / a
    # local of the enclosing function which nothing else captures
    gen_class.OBSERVE +
    "def make(n, names, flag=True):\n    local = n * 2\n    class C:\n        size = n\n        twice = local\n        if flag:\n            kind = 'flagged'\n"
    "        for nm in names:\n            last = nm\n        labels = [nm.upper() for nm in names]\n        class Inner:\n            depth = n + 1\n"
    "        def get(self):\n            return self.size\n    return C\nK = make(3, ['a', 'b'])\n_show(K)\nprint(K().get(), K.Inner.depth, K.labels)\n",
    gen_class.OBSERVE +
    "class Outer:\n    def build(self, width, *extra, **opts):\n        class Row:\n            w = width\n            more = extra\n            o = sorted(opts)\n        return Row\n"
    "R = Outer().build(4, 5, 6, z=1)\n_show(R)\nprint(R.w, R.more, R.o)\n",
]


# members read by the first iterable of a comprehension / by a lambda default written in the class body, in every placement
EXTRA += [gen_class.class_program("", False, False, 0, "member-in-inner", pl) for pl in ("module", "function", "class")]
EXTRA += [gen_class.class_program("B", True, False, 1, "member-in-inner", "function")]


def run(chk, build, replay=None):
    common.standard_proof_part(chk, build, VFILES)
    propkit.replay_known(chk, "C12")      # listed design-level deviations of this property: re-confirmed on the real code
    chk.trusted += [
        "C12: the class object is created (empty) BEFORE its body runs and filled afterwards; what class-creation hooks observe "
        "(metaclass __new__/__prepare__ seeing the namespace, __set_name__, __slots__, __doc__, implicit __hash__) is outside "
        "the property (it excludes class-creation hooks) and outside the theorem",
        "method kinds, MRO and super() are observed by executing the skeleton product under CPython (support); the theorem "
        "covers the ordered attribute map and the class header",
    ]
    rng = random.Random(chk.seed * 19 + 12)
    progs = list(gen_class.all_programs())
    keys = [k for k, _ in progs]
    srcs = [p for _, p in progs]
    if chk.tier == "quick":
        idx = sorted(rng.sample(range(len(srcs)), 500))
        srcs = [srcs[i] for i in idx]
        keys = [keys[i] for i in idx]
    srcs += EXTRA
    # the class header (bases, metaclass, keywords, decorators) resolved in every kind of defining scope
    placed = [s for _, s in gen_place.class_placements()]
    srcs += placed
    # method kinds decided by what the decorators RETURN (callable instances, partials, builtins, plain functions) on ordinary
    # methods, static methods and on the two implicit class methods
    from harness.props import c11
    srcs += [s for _, s in c11.hook_programs()]
    replayed = propkit.load_replay_sources(replay)
    if replayed:
        srcs = replayed
    propkit.lower_correspondence(chk, srcs, configs=[(False, False), (True, True)])
    triples = [("oneliner", "list", "if_expr"), ("ast.unparse", "chain_call", "short_circuit")]
    if chk.tier == "thorough":
        triples = diffexec.ALL_CONFIGS
    propkit.oracle_exec(chk, srcs, triples, what="the class differs in members, MRO, metaclass or in what its methods return",
                        reject_ok=False)
    chk.samples = [{"skeleton": list(map(str, k))} for k in keys[:4]]
    chk.coverage["input_distribution"] = {"class_programs": len(srcs), "skeleton_product_total": len(progs),
                                          "header_placement_programs": len(placed),
                                          "exhaustive": chk.tier == "thorough"}
