"""C09 - helper names never capture or clobber user identifiers."""
import ast
import itertools
import random
import re
import symtable
import sys

from harness import common, diffexec, lowercorr, propkit

VFILES = ["theories/Namespace.v", "theories/Lower.v", "theories/Names.v", "theories/Fresh.v"]

SAFE_IDS = ["_", "__", "k", "v", "self", "it", "itertools", "importlib", "x", "cls", "args", "_0",
            # the user's own `super` (the generated code writes zero-argument super() of the builtin out explicitly)
            "super"]
# names of builtins the generated code calls: shadowing them breaks the scaffolding (known finding, design level)
BUILTIN_IDS = ["type", "setattr", "tuple", "list", "hasattr", "slice", "globals", "locals", "__import__", "classmethod", "iter", "next"]

FEATURES = {
    "while": "n_ = 0\nwhile n_ < 2:\n    print(V)\n    n_ += 1",
    "whiletest": "n_ = 0\nwhile n_ < 2 and V is not None:\n    n_ += 1\nprint(n_)",
    "forbreak": "for q_ in range(3):\n    if q_ == 1:\n        break\n    print(V)",
    "class": "class Z_:\n    m = V\n    def get(self):\n        return V\nprint(Z_.m, Z_().get())",
    # the name is used only inside a method (the class body itself does not mention it), also under a loop of the method
    "method": "class Y_:\n    def get(self):\n        return V\n    def loop(self, n=2):\n        out = []\n        for _q in range(n):\n            out.append(V)\n        return out\nprint(Y_().get(), Y_().loop())",
    "import": "import os.path as P_\nprint(V, P_.sep)",
    "fromimport": "from os import path as P2_, sep\nprint(V, sep)",
    "destructuring": "a1_, *b1_ = [V, V]\nprint(a1_, b1_)",
    "augsub": "d_ = {0: 1}\nd_[0] += 1\nprint(V, d_)",
    "globalstore": "def g_():\n    global gg_\n    gg_ = V\ng_()\nprint(gg_)",
    "chain": "print(V)\nprint(V)\nprint(V)",
    "closure": "def h_():\n    def inner():\n        return V\n    return inner()\nprint(h_())",
    # several temporaries of ONE kind alive in one statement / one output (they must not share a name)
    "nested-pattern": "(a2_, b2_), c2_ = (V, 2), 3\nprint(a2_, b2_, c2_)\n(h2_, *t2_), l2_ = [[V, 1, 2], 9]\nprint(h2_, t2_, l2_)",
    "chained-pattern": "x3_, y3_ = pair_ = [V, 20]\nprint(x3_, y3_, pair_, type(pair_).__name__)\nr3_ = s3_, t3_ = (V, 5)\nprint(r3_, s3_, t3_)",
    "for-nested-target": "for (k4_, v4_), i4_ in zip({V: 2}.items(), [5]):\n    print(k4_, v4_, i4_)\nfor i5_, (a5_, b5_) in enumerate([(V, 1)]):\n    print(i5_, a5_, b5_)",
    "nested-loops": "for i6_ in range(2):\n    j6_ = 0\n    while j6_ < 3:\n        j6_ += 1\n        if j6_ == 2:\n            break\n        for k6_ in range(2):\n            if k6_:\n                continue\n            print(V, i6_, j6_, k6_)\n    else:\n        print('no break')",
    # two loops of one scope that both need an interrupt flag: the inner loop's last iteration takes `continue`, the outer
    # loop re-tests its own flag after the inner loop ran
    "nested-loop-flags": "for w_ in ['ab cd.', 'e f g!', 'hij']:\n    n_ = 0\n    for c_ in w_:\n        if not c_.isalpha():\n            continue\n        n_ += 1\n    if n_ > 4:\n        break\n    print(V, w_, n_)\nk_ = 0\nwhile k_ < 3:\n    k_ += 1\n    j_ = 0\n    while j_ < 2:\n        j_ += 1\n        if j_ == 2:\n            continue\n        print('inner', j_)\n    if k_ == 3:\n        continue\n    print(V, 'outer', k_)",
    # two for loops of one scope, one inside the other, that BOTH break / return (two iterator wrappers alive at once; the outer
    # break, the outer else and a return from the inner loop go through the outer one's wrapper)
    "nested-for-breaks": "for a6_ in range(3):\n    for b6_ in range(3):\n        if b6_ == 1:\n            break\n        print(V, a6_, b6_)\n    else:\n        print('inner else')\n    if a6_ == 1:\n        break\nelse:\n    print('outer else')\nprint(a6_, b6_)\nfor c6_ in range(2):\n    for d6_ in range(2):\n        if d6_ > 5:\n            break\n    if c6_ > 5:\n        break\nelse:\n    print('outer else 2', V)\ndef fn6_(rows_):\n    for r6_ in rows_:\n        for e6_ in r6_:\n            if e6_ > 1:\n                return (r6_, e6_, V)\n    return None\nprint(fn6_([[0, 1], [2, 3], [4, 5]]))",
    # two while loops of one scope, one inside the other, that both break (two break flags alive at once; the inner break must
    # not end the outer loop or skip its else)
    "nested-while-breaks": "o7_ = 0\nfound7_ = []\nwhile o7_ < 4:\n    o7_ += 1\n    i7_ = 0\n    while True:\n        i7_ += 1\n        if i7_ >= o7_:\n            break\n    found7_.append((o7_, i7_, V))\n    if o7_ == 9:\n        break\nelse:\n    print('outer else', found7_)\ndef fw7_(lim_):\n    a7_ = 0\n    while a7_ < lim_:\n        a7_ += 1\n        b7_ = 0\n        while b7_ < 3:\n            b7_ += 1\n            if b7_ == 2:\n                break\n        if a7_ == lim_ + 5:\n            return 'never'\n    else:\n        return ('done', a7_, b7_, V)\n    return 'broken'\nprint(fw7_(3))",
    # a lambda parameter / comprehension target SPELLED like a variable the function shares with a nested def (the helper
    # dictionary must not capture the inner binder); \u00a7 stands for the bare identifier
    "inner-binder-same-name": "def peek_():\n    return V\nprint(peek_(), [\u00a7 * 2 for \u00a7 in range(3)], (lambda \u00a7: \u00a7 + 1)(4), sorted({\u00a7: \u00a7 for \u00a7 in 'ab'}), list(\u00a7 for \u00a7 in (1, 2) if \u00a7), (lambda *\u00a7: \u00a7)(1, 2), (lambda **\u00a7: sorted(\u00a7))(k=1), (lambda a, /, *, \u00a7: \u00a7)(0, \u00a7=5))",
    # two functions on one nesting chain each own captured variables (two helper dictionaries alive at once)
    "two-owners": "def o9_(p_):\n    def m9_(n_):\n        lab_ = (V, p_, n_)\n        def s9_():\n            return lab_, p_\n        return s9_()\n    return m9_(2)\nprint(o9_(1))\ndef t9_():\n    tot_ = 0\n    def mid_(k_):\n        def inn_():\n            nonlocal tot_\n            tot_ += k_\n            return V\n        return inn_()\n    r_ = mid_(5)\n    return tot_, r_\nprint(t9_())\ndef rep_(times_):\n    def deco_(fn_):\n        def wrap_(x_):\n            return [fn_(x_) for _q in range(times_)]\n        return wrap_\n    return deco_\n@rep_(2)\ndef hello_(x_):\n    return (V, x_)\nprint(hello_('k'))",
    "nested-returns": "def o7_(n):\n    def i7_(m):\n        for q7_ in range(m):\n            if q7_ == 1:\n                return (V, q7_)\n        return None\n    while n:\n        n -= 1\n        if i7_(n):\n            return i7_(n)\n    return 'end'\nprint(o7_(3), o7_(1))",
    "nested-classes": "class O8_:\n    a = V\n    class I8_:\n        b = 2\n        def m(self):\n            return V\n    def n(self):\n        return self.I8_().m()\nprint(O8_.a, O8_.I8_.b, O8_().n())",
    "aug-attr-sub": "class B9_:\n    pass\no9_ = B9_()\no9_.a = [1]\no9_.a += [V]\no9_.a[0] += 5\nd9_ = {'k': {'j': 1}}\nd9_['k']['j'] += 2\nprint(o9_.a, d9_)",
    "two-imports": "import os.path, json as J_\nfrom os import sep as S_, path as P3_\nprint(V, os.path.basename('a/b'), J_.dumps([1]), S_ == os.sep)",
    "comprehension-walrus": "print([y0_ for x0_ in [V, V] if (y0_ := x0_) is not None], [[(z0_ := w0_) for w0_ in [V]] for _q in range(2)])",
}


def _ind(s):
    return "\n".join("    " + l for l in s.split("\n"))


def program(ident, role, feature):
    body = FEATURES[feature]
    if "\u00a7" in body:
        if role not in ("global", "local", "parameter"):
            return None
        body = body.replace("\u00a7", ident)
    if role == "global":
        return f"{ident} = 7\n" + body.replace("V", ident) + "\n"
    if role == "local":
        return "def f_():\n" + _ind(f"{ident} = 7\n" + body.replace("V", ident)) + "\nf_()\n"
    if role == "parameter":
        return f"def f_({ident}):\n" + _ind(body.replace("V", ident)) + "\nf_(7)\n"
    if role == "looptarget":
        return f"for {ident} in [7]:\n" + _ind(body.replace("V", ident)) + "\n"
    if role == "funcname":
        return f"def {ident}():\n    return 7\n" + body.replace("V", f"{ident}()") + "\n"
    if role == "classname":
        return f"class {ident}:\n    a = 7\n" + body.replace("V", f"{ident}.a") + "\n"
    if role == "classattr":
        if feature in ("globalstore", "closure", "class", "method", "comprehension-walrus", "nested-classes", "nested-returns", "two-owners",
                       "nested-for-breaks", "nested-while-breaks"):
            return None
        return "class C_:\n" + _ind(f"{ident} = 7\n" + body.replace("V", ident)) + "\n"
    if role == "alias":
        return f"import math as {ident}\n" + body.replace("V", f"{ident}.floor(7.5)") + "\n"
    raise ValueError(role)


ROLES = ["global", "local", "parameter", "looptarget", "funcname", "classname", "classattr", "alias"]


def matrix(ids):
    for ident, role, feature in itertools.product(ids, ROLES, FEATURES):
        if role == "parameter" and ident in ("__import__",):
            continue
        p = program(ident, role, feature)
        if p is not None:
            yield (ident, role, feature), p


# ---------------------------------------------------------------------------------------------
# audit of the binders the converter introduces

def _is_runner(n):
    return (isinstance(n, ast.Call) and not n.args and isinstance(n.func, ast.Lambda) and not n.func.args.args
            and isinstance(n.func.body, ast.NamedExpr) and n.func.body.target.id == "_"
            and isinstance(n.func.body.value, ast.Lambda) and [a.arg for a in n.func.body.value.args.args] == ["__"]
            and isinstance(n.func.body.value.body, ast.Name) and n.func.body.value.body.id == "_")


def binders(tree, skip_runner=False):
    out = set()
    stack = [tree]
    while stack:
        n = stack.pop()
        if skip_runner and _is_runner(n):
            continue
        if skip_runner and isinstance(n, ast.NamedExpr) and n.target.id == "__ol_iter_wrapper":
            out.add(n.target.id)
            continue            # the preset class: its lambdas contain no user code
        if isinstance(n, ast.NamedExpr):
            out.add(n.target.id)
        elif isinstance(n, ast.Lambda):
            a = n.args
            out.update(x.arg for x in a.posonlyargs + a.args + a.kwonlyargs)
            if a.vararg:
                out.add(a.vararg.arg)
            if a.kwarg:
                out.add(a.kwarg.arg)
        elif isinstance(n, ast.comprehension):
            out.update(m.id for m in ast.walk(n.target) if isinstance(m, ast.Name))
        stack.extend(ast.iter_child_nodes(n))
    return out


def source_bound_names(src):
    names = set()

    def walk(t):
        for s in t.get_symbols():
            names.add(s.get_name())
        for c in t.get_children():
            walk(c)
    walk(symtable.symtable(src, "<s>", "exec"))
    return names


def audit(src, chain):
    conv = sys.modules["oneliner.convert"].convert
    out = conv(ast.parse(src), symtable.symtable(src, "<s>", "exec"), lowercorr.make_configs(chain, False))
    introduced = binders(out, skip_runner=True) - source_bound_names(src)
    return sorted(b for b in introduced if not b.startswith("__ol_") and b != "__class__")


def run(chk, build, replay=None):
    common.standard_proof_part(chk, build, VFILES)
    chk.trusted += [
        "C09: the real converter draws 10 random letters per temporary; that two draws within one conversion differ is an assumption "
        "(collision probability about n^2 / 2.8e14); the theorems are about the model's position-derived names",
        "that no scaffolding binder other than the reserved ones is introduced is audited syntactically on every real output "
        "(support), and decided semantically by executing the (identifier x role x feature) matrix",
    ]
    import oneliner  # noqa
    rng = random.Random(chk.seed * 23 + 9)
    cases = list(matrix(SAFE_IDS))
    if chk.tier == "quick":
        # stratified: every (identifier, feature) pair with one role drawn at random, plus the whole role x feature plane of
        # the identifiers the generated code itself spells (`super`, `_`)
        by = {}
        for key, p in cases:
            by.setdefault((key[0], key[2]), []).append((key, p))
        cases = [rng.choice(v) for v in by.values()] + [c for c in cases if c[0][0] in ("super", "_")]
        seen, uniq = set(), []
        for c in cases:
            if c[0] not in seen:
                seen.add(c[0])
                uniq.append(c)
        cases = uniq
    progs = [p for _, p in cases]
    replayed = propkit.load_replay_sources(replay)
    if replayed:
        progs = replayed
    propkit.lower_correspondence(chk, progs, configs=[(False, False), (True, True)])
    triples = [("oneliner", "list", "if_expr"), ("ast.unparse", "chain_call", "short_circuit")]
    if chk.tier == "thorough":
        triples = diffexec.ALL_CONFIGS
    propkit.oracle_exec(chk, progs, triples, what="the program behaves differently because of the identifier it uses", reject_ok=False)
    # the same spelling chosen for variables of DIFFERENT scopes (alpha-renaming clause): a module global read / rebound several
    # function levels below a function that owns a variable of that spelling, the functions in between silent about it
    if not replayed:
        import random as _random
        from harness import gen_scope
        chains = [gen_scope.render(t) for t in gen_scope.chain_trees()]
        if chk.tier == "quick":
            chains = _random.Random(chk.seed * 13 + 9).sample(chains, 260)
        chains = [c for c in chains if gen_scope.accepted(c)]
        propkit.oracle_exec(chk, chains, triples, what="the program behaves differently because two of its scopes spell a variable "
                            "the same way", reject_ok=False)
        chk.coverage.setdefault("input_distribution_extra", {})["same_spelling_scope_chains"] = len(chains)
    bad_audit = 0
    for p in progs:
        for chain in (False, True):
            try:
                extra = audit(p, chain)
            except Exception:
                continue
            if extra:
                bad_audit += 1
                if bad_audit <= 3:
                    chk.add_violation("the converter introduces a binder that is neither reserved nor the user's", source=p,
                                      chain_call=chain, binders=extra)
    # known finding: shadowed builtins
    kf = {f["id"]: f for f in common.load_known().get("findings", []) if f["property"] == "C09"}
    if "K-builtins-shadowed" in kf:
        w = kf["K-builtins-shadowed"]["witness"]
        r = diffexec.run_many([w["source"]], [tuple(w["config"])], need_clean=False)[0]
        if r[0][1] != "same":
            chk.known_hits.append(("K-builtins-shadowed", kf["K-builtins-shadowed"]["what"]))
        else:
            chk.notes.append("K-builtins-shadowed no longer reproduces")
    chk.samples = [{"identifier": k[0], "role": k[1], "feature": k[2]} for k, _ in cases[:5]]
    chk.coverage["input_distribution"] = {"matrix_programs": len(progs), "identifiers": SAFE_IDS, "roles": ROLES,
                                          "features": list(FEATURES), "binder_audit_failures": bad_audit,
                                          "exhaustive": chk.tier == "thorough"}
