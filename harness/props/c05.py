"""C05 - break/continue/return/else are lowered with exact statement-level control flow."""
import itertools
import json
import random

from harness import common, diffexec, gen_cf, lowercorr, propkit

VFILES = ["theories/Namespace.v", "theories/Lower.v", "theories/KSem.v", "theories/KSim.v"]


def _trace_work(job):
    import sys
    sys.setrecursionlimit(50000)
    src, triples, scheds = job
    out = []
    for tr in triples:
        try:
            text = diffexec.convert(src, tr)
        except Exception as e:
            out.append((tr, None, "convert-error", type(e).__name__ + ": " + str(e)[:100]))
            continue
        for si, sched in enumerate(scheds):
            a = gen_cf.run_source(src, sched)
            try:
                b = gen_cf.run_converted(text, sched)
            except SyntaxError as e:
                b = [("EXC", "SyntaxError", str(e)[:80])]
            if a != b:
                i = 0
                while i < min(len(a), len(b)) and a[i] == b[i]:
                    i += 1
                out.append((tr, si, "trace-differs", f"first difference at event {i}: source {a[i:i+3]} converted {b[i:i+3]}"))
                break
        else:
            out.append((tr, None, "same", ""))
    return out


CORPUS = [
    # (skeleton, placement): minimised shapes worth keeping
    ([["for", 1, [["if", 2, [["if", 3, [["continue"]], []], ["m", 4]], []], ["m", 5]], []]], "function"),
    ([["while", 1, [["if", 2, [["break"]], [["m", 3]]], ["m", 4]], [["m", 5]]]], "module"),
    ([["for", 1, [["while", 2, [["return", 3]], [["m", 4]]], ["m", 5]], [["m", 6]]], ["m", 7]], "function"),
    ([["while", 1, [["for", 2, [["if", 3, [["break"]], [["continue"]]], ["m", 4]], [["break"]]], ["m", 5]], []]], "class"),
    ([["if", 1, [["return", None]], []], ["m", 2], ["for", 3, [["if", 4, [["return", 5]], []]], [["m", 6]]], ["m", 7]], "function"),
]


def run(chk, build, replay=None):
    common.standard_proof_part(chk, build, VFILES)
    chk.trusted += [
        "C05: KSem.v gives the reference semantics of the skeleton statements and the evaluation rules of the scaffolding "
        "expressions (list display as sequencing, conditional/boolean operators, walrus of a constant, the takewhile/count and "
        "iterator-wrapper comprehension idioms); both are models of CPython validated by running source and converted text with "
        "instrumented probes (this check), not verified",
    ]
    rng = random.Random(chk.seed * 7 + 5)
    progs = []
    if replay:
        data = json.load(open(replay))
        v = data.get("violation", {})
        if "source" in v:
            progs = [v["source"]]
    if not progs:
        for b, pl in CORPUS:
            progs.append(gen_cf.program(b, pl))
        n = 350 if chk.tier == "quick" else 6000
        for _ in range(n):
            b, pl = gen_cf.random_skeleton(rng, 3 if rng.random() < 0.8 else 4)
            progs.append(gen_cf.program(b, pl))
        if chk.tier == "thorough":
            for pl in ("module", "function", "class"):
                for b in itertools.islice(gen_cf.enum_blocks(2, False, pl == "function", 2, None), 0, 20000):
                    progs.append(gen_cf.program(gen_cf.renumber(b), pl))
    progs = list(dict.fromkeys(progs))
    propkit.lower_correspondence(chk, progs)
    scheds = gen_cf.schedules(rng, 6)
    triples = [("oneliner", "list", "if_expr"), ("oneliner", "chain_call", "short_circuit"),
               ("ast.unparse", "list", "short_circuit"), ("ast.unparse", "chain_call", "if_expr")]
    if chk.tier == "thorough":
        triples = diffexec.ALL_CONFIGS
    res = diffexec.pool().map(_trace_work, [(p, triples, scheds) for p in progs], chunksize=4)
    counts = {}
    for p, r in zip(progs, res):
        chk.note_case(("trace", p))
        for tr, si, st, detail in r:
            counts[st] = counts.get(st, 0) + 1
            if st != "same":
                chk.add_violation("the converted program executes a different sequence of statements / condition evaluations / "
                                  "iterator calls than the source", source=p, config=tr,
                                  schedule=None if si is None else scheds[si], status=st, detail=detail)
    chk.coverage.setdefault("direct_oracle", {}).update(counts)
    chk.samples = [{"program": p} for p in progs[:3]]
    chk.coverage["input_distribution"] = {"skeleton_programs": len(progs), "schedules": len(scheds), "configs": len(triples)}
