"""C05 - break/continue/return/else are lowered with exact statement-level control flow."""
import itertools
import json
import random

from harness import common, diffexec, gen_cf, lowercorr, propkit

VFILES = ["theories/Namespace.v", "theories/Lower.v", "theories/KSem.v", "theories/KSim.v"]


def _trace_work(job):
    import sys
    sys.setrecursionlimit(50000)
    src, triples, scheds = job
    out = []
    for tr in triples:
        try:
            text = diffexec.convert(src, tr)
        except Exception as e:
            out.append((tr, None, "convert-error", type(e).__name__ + ": " + str(e)[:100]))
            continue
        for si, sched in enumerate(scheds):
            a = gen_cf.run_source(src, sched)
            try:
                b = gen_cf.run_converted(text, sched)
            except SyntaxError as e:
                b = [("EXC", "SyntaxError", str(e)[:80])]
            if a != b:
                i = 0
                while i < min(len(a), len(b)) and a[i] == b[i]:
                    i += 1
                out.append((tr, si, "trace-differs", f"first difference at event {i}: source {a[i:i+3]} converted {b[i:i+3]}"))
                break
        else:
            out.append((tr, None, "same", ""))
    return out


def sk_sexp(block):
    out = []
    for s in block:
        k = s[0]
        if k == "m":
            out.append(f"(m {s[1]})")
        elif k in ("pass", "break", "continue"):
            out.append(f"({k})")
        elif k == "return":
            out.append("(return %s)" % ("()" if s[1] is None else f"({s[1]})"))
        else:
            out.append(f"({k} {s[1]} {sk_sexp(s[2])} {sk_sexp(s[3])})")
    return "(" + " ".join(out) + ")"


def log_to_model(log):
    """the Python tracer's log in the spelling of KSem.sx_event"""
    out = []
    for ev in log:
        if ev[0] in ("m", "v", "iterable", "iter"):
            out.append(f"({ev[0]} {ev[1]})")
        elif ev[0] in ("c", "next"):
            out.append(f"({ev[0]} {ev[1]} {1 if ev[2] else 0})")
        elif ev[0] == "r":
            out.append("(r %s)" % ("()" if ev[1] is None else f"({ev[1][1]})"))
        else:
            out.append(str(ev))
    return "(ok (" + " ".join(out) + "))"


def validate_semantics(chk, skeletons, scheds):
    """KSem.exec vs CPython on the source; KSem.run on the REAL converter output vs CPython on the converted text."""
    import ast
    import symtable
    import sys
    from harness import sexp
    conv = sys.modules["oneliner.convert"].convert
    lines, expect, what = [], [], []
    for b, pl in skeletons:
        if pl == "class":
            continue
        src = gen_cf.program(b, pl)
        try:
            out = conv(ast.parse(src), symtable.symtable(src, "<s>", "exec"), lowercorr.make_configs(False, False))
            text = diffexec.convert(src, ("oneliner", "list", "if_expr"))
            esx = sexp.expr(out)
        except Exception:
            continue
        for sched in scheds:
            bits = "(" + " ".join("1" if x else "0" for x in sched) + ")"
            lines.append(f"(ksem-src {bits} {pl} {sk_sexp(b)})")
            expect.append(log_to_model(gen_cf.run_source(src, sched)))
            what.append(("source semantics (KSem.exec) vs CPython", src, sched))
            lines.append(f"(ksem-tgt {bits} {esx})")
            expect.append(log_to_model(gen_cf.run_converted(text, sched)))
            what.append(("scaffolding semantics (KSem.run) on the real converter output vs CPython", src, sched))
    answers = common.model_eval(lines)
    bad = 0
    for a, e, w in zip(answers, expect, what):
        chk.note_case(("ksem", w[1], tuple(w[2])))
        if a != e:
            bad += 1
            if bad <= 3:
                chk.add_broken("correspondence", w[0], json.dumps({"source": w[1], "schedule": w[2], "cpython": e[:600], "model": a[:600]}))
    chk.coverage.setdefault("correspondence", {})["semantics_vs_cpython"] = {"traces": len(lines), "disagreements": bad}


CORPUS = [
    # (skeleton, placement): minimised shapes worth keeping
    ([["for", 1, [["if", 2, [["if", 3, [["continue"]], []], ["m", 4]], []], ["m", 5]], []]], "function"),
    ([["while", 1, [["if", 2, [["break"]], [["m", 3]]], ["m", 4]], [["m", 5]]]], "module"),
    ([["for", 1, [["while", 2, [["return", 3]], [["m", 4]]], ["m", 5]], [["m", 6]]], ["m", 7]], "function"),
    ([["while", 1, [["for", 2, [["if", 3, [["break"]], [["continue"]]], ["m", 4]], [["break"]]], ["m", 5]], []]], "class"),
    ([["if", 1, [["return", None]], []], ["m", 2], ["for", 3, [["if", 4, [["return", 5]], []]], [["m", 6]]], ["m", 7]], "function"),
]


def run(chk, build, replay=None):
    common.standard_proof_part(chk, build, VFILES)
    chk.trusted += [
        "C05: KSem.v gives the reference semantics of the skeleton statements and the evaluation rules of the scaffolding "
        "expressions (list display as sequencing, conditional/boolean operators, walrus of a constant, the takewhile/count and "
        "iterator-wrapper comprehension idioms); both are models of CPython validated by running source and converted text with "
        "instrumented probes (this check), not verified",
    ]
    rng = random.Random(chk.seed * 7 + 5)
    progs = []
    if replay:
        data = json.load(open(replay))
        v = data.get("violation", {})
        if "source" in v:
            progs = [v["source"]]
    if not progs:
        for b, pl in CORPUS:
            progs.append(gen_cf.program(b, pl))
        n = 350 if chk.tier == "quick" else 6000
        for _ in range(n):
            b, pl = gen_cf.random_skeleton(rng, 3 if rng.random() < 0.8 else 4)
            progs.append(gen_cf.program(b, pl))
        if chk.tier == "thorough":
            for pl in ("module", "function", "class"):
                for b in itertools.islice(gen_cf.enum_blocks(2, False, pl == "function", 2, None), 0, 20000):
                    progs.append(gen_cf.program(gen_cf.renumber(b), pl))
    progs = list(dict.fromkeys(progs))
    propkit.lower_correspondence(chk, progs)
    scheds = gen_cf.schedules(rng, 6)
    rng2 = random.Random(chk.seed + 55)
    sks = list(CORPUS) + [gen_cf.random_skeleton(rng2, 3) for _ in range(150 if chk.tier == "quick" else 2000)]
    validate_semantics(chk, sks, scheds[:4])
    triples = [("oneliner", "list", "if_expr"), ("oneliner", "chain_call", "short_circuit"),
               ("ast.unparse", "list", "short_circuit"), ("ast.unparse", "chain_call", "if_expr")]
    if chk.tier == "thorough":
        triples = diffexec.ALL_CONFIGS
    res = diffexec.pool().map(_trace_work, [(p, triples, scheds) for p in progs], chunksize=4)
    counts = {}
    for p, r in zip(progs, res):
        chk.note_case(("trace", p))
        for tr, si, st, detail in r:
            counts[st] = counts.get(st, 0) + 1
            if st != "same":
                chk.add_violation("the converted program executes a different sequence of statements / condition evaluations / "
                                  "iterator calls than the source", source=p, config=tr,
                                  schedule=None if si is None else scheds[si], status=st, detail=detail)
    chk.coverage.setdefault("direct_oracle", {}).update(counts)
    chk.samples = [{"program": p} for p in progs[:3]]
    chk.coverage["input_distribution"] = {"skeleton_programs": len(progs), "schedules": len(scheds), "configs": len(triples)}
