"""C17 - long and deeply nested programs convert without exhausting recursion."""
import io
import contextlib
import sys
import traceback

from harness import common, diffexec, propkit

VFILES = ["theories/Namespace.v", "theories/Lower.v", "theories/Depth.v", "theories/DepthElif.v", "theories/GuardNest.v"]

# ---- the program families of the height theorems (Depth.v, DepthElif.v), written as Python source: the model's output for
# them is compared with the real converter's output tree (equality), and the height the theorem states is measured on the REAL
# tree.  (list wrapper?, short_circuit?) -> bound; "exact" = the theorem states an equality.
_M = "m(0)\n"


def th_marks(n):
    return _M * n


def th_guard(n):
    return "while c(0):\n    if c(1):\n        break\n" + "    m(0)\n" * n


def th_cont(n):
    return "for x in it(0):\n    if c(1):\n        continue\n" + "    m(0)\n" * n


def th_ret(n):
    return "def f():\n    if c(1):\n        return\n" + "    m(0)\n" * n


def th_elif(n):
    if n == 0:
        return _M
    return "if c(0):\n    m(0)\n" + "elif c(0):\n    m(0)\n" * (n - 1) + "else:\n    m(0)\n"


# family -> (source builder, {(chain, short): (kind, bound(n))})
THEOREM_FAMILIES = {
    "marks": (th_marks, {(False, False): ("le", lambda n: 3)}),
    "guard_prog": (th_guard, {(False, False): ("le", lambda n: 7)}),
    "cont_prog": (th_cont, {(False, False): ("le", lambda n: 6)}),
    "ret_prog": (th_ret, {(False, False): ("le", lambda n: 8)}),
    "elif_chain": (th_elif, {(False, True): ("le", lambda n: 6), (False, False): ("eq", lambda n: n + 2)}),
}


def py_height(node):
    """Depth.height on a CPython tree: expression nodes count one level each; comprehension clauses, keywords and parameter
    lists are transparent containers; operators and contexts do not count"""
    import ast
    best = 0
    stack = [(node, 1)]
    while stack:
        nd, h = stack.pop()
        if h > best:
            best = h
        for ch in ast.iter_child_nodes(nd):
            if isinstance(ch, ast.expr):
                stack.append((ch, h + 1))
            elif isinstance(ch, (ast.comprehension, ast.keyword, ast.arguments)):
                stack.append((ch, h))
            elif isinstance(ch, ast.arg):
                pass
    return best


def theorem_families(chk):
    import ast
    import symtable
    from harness import lowercorr
    conv = sys.modules["oneliner.convert"].convert if "oneliner.convert" in sys.modules else None
    if conv is None:
        import oneliner  # noqa: F401
        conv = sys.modules["oneliner.convert"].convert
    sizes = [0, 1, 2, 3, 17, 120] if chk.tier == "quick" else [0, 1, 2, 3, 5, 17, 60, 120, 400]
    sources = []
    measured = {}
    old = sys.getrecursionlimit()
    sys.setrecursionlimit(50000)
    try:
        for fam, (build, bounds) in THEOREM_FAMILIES.items():
            for n in sizes:
                src = build(n)
                if not src:
                    continue
                sources.append(src)
                for (chain, short), (kind, bound) in bounds.items():
                    try:
                        out = conv(ast.parse(src), symtable.symtable(src, "<s>", "exec"), lowercorr.make_configs(chain, short))
                    except Exception as e:
                        chk.add_violation("a program of a height-theorem family is refused by the converter", family=fam, n=n,
                                          config=[chain, short], error=type(e).__name__ + ": " + str(e)[:200], source_head=src[:200])
                        continue
                    h = py_height(out)
                    measured[f"{fam}/{n}/{'chain' if chain else 'list'}/{'short' if short else 'if_expr'}"] = h
                    b = bound(n)
                    if (kind == "le" and h > b) or (kind == "eq" and h != b):
                        chk.add_violation("the real converter's output is deeper than the height theorem of this family states",
                                          family=fam, n=n, config=[chain, short], height=h, theorem_bound=b, kind=kind,
                                          source_head=src[:200])
    finally:
        sys.setrecursionlimit(old)
    propkit.lower_correspondence(chk, sources, label="height-theorem families")
    chk.coverage.setdefault("direct_oracle", {})["theorem_family_heights"] = measured



def fam_statements(n):
    return "x = 0\n" + "x += 1\n" * n + "print(x)\n"


# a long run of statements AFTER an early exit of the same block (the rest of the block is guarded by the exit's flag:
# one guard for the whole rest, not one nesting level per statement)
def fam_guard_return(n):
    return "def f(x):\n    t = 0\n    if x:\n        return -1\n" + "    t += 1\n" * n + "    return t\nprint(f(0))\n"


def fam_guard_continue(n):
    return "t = 0\nfor i in range(2):\n    if i:\n        continue\n" + "    t += 1\n" * n + "print(t)\n"


def fam_guard_break(n):
    return "t = 0\nwhile t < 5:\n    if t:\n        break\n" + "    t += 1\n" * n + "print(t)\n"


def fam_elif(n):
    return (f"x = {n - 1}\nif x == 0:\n    r = 0\n" + "".join(f"elif x == {i}:\n    r = {i}\n" for i in range(1, n))
            + "else:\n    r = -1\nprint(r)\n")


def fam_binop(n):
    return "x = " + " + ".join(["1"] * n) + "\nprint(x)\n"


def fam_calls(n):
    return "f = lambda: f\nx = f" + "()" * n + "\nprint(x is f)\n"


def fam_attrs(n):
    return "class A:\n    pass\na = A()\na.x = a\ny = a" + ".x" * n + "\nprint(y is a)\n"


def fam_attr_target(n):
    return "class A:\n    pass\na = A()\na.x = a\na.n = 0\na" + ".x" * n + ".n += 1\na" + ".x" * n + ".d = {0: 0}\na" + ".x" * n + ".d[0] += 2\nprint(a.n, a.d)\n"


def fam_nested_if(n):
    return "x = 0\n" + "".join("    " * i + "if x == 0:\n" for i in range(n)) + "    " * n + "x = 1\nprint(x)\n"


def fam_nested_for(n):
    return "c = 0\n" + "".join("    " * i + f"for i{i} in range(1):\n" for i in range(n)) + "    " * n + "c += 1\nprint(c)\n"


def fam_nested_def(n):
    return "".join("    " * i + f"def f{i}():\n" for i in range(n)) + "    " * n + "return 1\n" + \
        "".join("    " * (n - 1 - i) + f"return f{n - i}()\n" for i in range(n - 1)) + "print(f0())\n"


def fam_pattern(n):
    return "a = " + "[" * n + "1" + ",]" * n + "\n" + "[" * n + "b" + ",]" * n + " = a\nprint(b)\n"


# a long operator chain standing in every kind of statement position (the converter copies, wraps and re-visits the
# expressions of some statements: each such path must stay as deep-input-proof as the plain assignment)
POSITIONS = {
    "aug_name": "x = 1\nt = 0\nt += {E}\nprint(t)\n",
    "aug_sub": "x = 1\nd = [0]\nd[0] += {E}\nprint(d)\n",
    "aug_attr": "x = 1\nclass A:\n    pass\na = A()\na.v = 0\na.v += {E}\nprint(a.v)\n",
    "return": "def f(x):\n    return {E}\nprint(f(1))\n",
    "call_arg": "x = 1\nprint(max({E}, 0))\n",
    "if_test": "x = 1\nif {E}:\n    print('t')\nelse:\n    print('f')\n",
    "while_test": "x = 1\nn = 0\nwhile n < 2 and {E}:\n    n += 1\nprint(n)\n",
    "for_iter": "x = 1\nfor i in [{E}]:\n    print(i)\n",
    "subscript_index": "x = 1\nd = {{}}\nd[{E}] = 1\nprint(sorted(d))\n",
    "default": "x = 1\ndef f(a={E}):\n    return a\nprint(f())\n",
    "lambda_body": "x = 1\nprint((lambda: {E})())\n",
    "comp_elt": "x = 1\nprint([{E} for _ in range(1)])\n",
    "class_attr": "x = 1\nclass K:\n    v = {E}\nprint(K.v)\n",
    "destructure": "x = 1\na, b = {E}, 2\nprint(a, b)\n",
    "chained_assign": "x = 1\na = b = {E}\nprint(a, b)\n",
    "walrus": "x = 1\nprint((w := {E}), w)\n",
    "fstring_field": "x = 1\nprint(f'{{{E}}}')\n",
}


def fam_position(pos):
    return lambda n: POSITIONS[pos].format(E=" + ".join(["x"] * n))


# the same positions holding a long RIGHT-NESTED chain of conditional expressions (n links deep in Python's own tree)
def fam_ifexp_position(pos):
    def build(n):
        e = "".join(f"{i} if x == {i + 2} else " for i in range(n)) + "x"
        return POSITIONS[pos].format(E="(" + e + ")")
    return build


# MANY early exits in one block (guard clauses): every one of them nests the rest of the block one level deeper
def fam_guards_return(n):
    return "def f(x):\n" + "".join(f"    if x == {i}:\n        return {i}\n" for i in range(n)) + "    return -1\nprint(f(3), f(-5))\n"


def fam_guards_continue(n):
    return f"t = 0\nfor k in range({n + 2}):\n" + "".join(f"    if k == {i}:\n        continue\n" for i in range(n)) + "    t += k\nprint(t)\n"


def fam_guards_break(n):
    return "r = 5\nt = 0\nwhile t < 3:\n    t += 1\n" + "".join(f"    if r == {i + 10}:\n        break\n" for i in range(n)) + "print(t)\n"


FAMILIES = {"statements": fam_statements, "elif": fam_elif, "binop": fam_binop, "calls": fam_calls, "attrs": fam_attrs,
            "attr_target": fam_attr_target, "nested_if": fam_nested_if, "nested_for": fam_nested_for, "nested_def": fam_nested_def,
            "pattern": fam_pattern, "guard_return": fam_guard_return, "guard_continue": fam_guard_continue,
            "guard_break": fam_guard_break, "guards_return": fam_guards_return, "guards_continue": fam_guards_continue,
            "guards_break": fam_guards_break}
for _pos in POSITIONS:
    FAMILIES["chain@" + _pos] = fam_position(_pos)
    FAMILIES["ifexp@" + _pos] = fam_ifexp_position(_pos)
SCHEDULE = {
    "quick": {"statements": [10, 300, 3000], "elif": [10, 100, 600, 1200], "binop": [10, 300, 900], "calls": [10, 300, 900],
              "attrs": [10, 300, 900], "attr_target": [10, 300, 900], "nested_if": [5, 40, 95], "nested_for": [5, 19],
              "nested_def": [5, 19], "pattern": [5, 30, 90]},
    "thorough": {"statements": [10, 100, 1000, 3000, 10000, 30000], "elif": [10, 100, 300, 600, 900, 1200, 2000], "binop": [10, 100, 300, 600, 900],
                 "calls": [10, 100, 300, 600, 900], "attrs": [10, 100, 300, 600, 900], "attr_target": [10, 100, 300, 600, 900],
                 "nested_if": [5, 20, 50, 90, 99], "nested_for": [5, 10, 19, 20], "nested_def": [5, 10, 19], "pattern": [5, 30, 60, 90]},
}


for _g in ("guard_return", "guard_continue", "guard_break"):
    SCHEDULE["quick"][_g] = [10, 300, 3000]
    SCHEDULE["thorough"][_g] = [10, 100, 300, 1000, 3000]
for _g in ("guards_return", "guards_continue", "guards_break"):
    SCHEDULE["quick"][_g] = [10, 90, 3000]
    SCHEDULE["thorough"][_g] = [10, 45, 90, 1000, 3000]
for _tier, _sizes in (("quick", [10, 300, 900]), ("thorough", [10, 100, 300, 600, 900])):
    for _pos in POSITIONS:
        SCHEDULE[_tier]["chain@" + _pos] = _sizes
        SCHEDULE[_tier]["ifexp@" + _pos] = [10, 300, 1200] if _tier == "quick" else [10, 100, 300, 600, 1200, 2000]


def _work(job):
    sys.setrecursionlimit(1000)      # CPython's default: the property is about what the interpreter accepts as it is
    fam, n, src, triples = job
    out = []
    try:
        code = compile(src, "<s>", "exec")
        b = io.StringIO()
        with contextlib.redirect_stdout(b):
            exec(code, {"__name__": "__main__"})
        expected = b.getvalue()
    except RecursionError:
        return [(tr, "source-refused", "") for tr in triples]
    except Exception as e:
        return [(tr, "source-refused", type(e).__name__) for tr in triples]
    for tr in triples:
        where = ""
        try:
            text = diffexec.convert(src, tr)
        except RecursionError:
            tb = traceback.format_exc()
            where = "ast.py" if "/ast.py" in tb else ("oneliner" if "oneliner" in tb else "?")
            out.append((tr, "convert-recursion", where))
            continue
        except Exception as e:
            out.append((tr, "convert-error", type(e).__name__ + ": " + str(e)[:100]))
            continue
        try:
            code = compile(text, "<c>", "eval")
        except RecursionError:
            out.append((tr, "compile-recursion", ""))
            continue
        except (SyntaxError, MemoryError, ValueError) as e:
            out.append((tr, "compile-error", str(e)[:100]))
            continue
        try:
            b = io.StringIO()
            with contextlib.redirect_stdout(b):
                eval(code, {"__name__": "__main__"})
            got = b.getvalue()
        except RecursionError:
            out.append((tr, "run-recursion", ""))
            continue
        except Exception as e:
            out.append((tr, "run-error", type(e).__name__ + ": " + str(e)[:100]))
            continue
        out.append((tr, "ok" if got == expected else "output-differs", f"{expected[:40]!r} vs {got[:40]!r}"))
    return out


def known_class(fam, n, tr, status, detail):
    """K-ast-unparse-recursion: CPython's recursive ast.unparse; K-chain-call-depth: one call nesting level per statement"""
    if tr[0] == "ast.unparse" and status == "convert-recursion" and detail == "ast.py":
        return "K-ast-unparse-recursion"
    if tr[1] == "chain_call" and tr[0] == "oneliner" and fam in ("statements", "guard_return", "guard_continue", "guard_break") and status in ("compile-recursion", "run-recursion") and n >= 1000:
        return "K-chain-call-depth"
    if fam.startswith("guards_") and n >= 1000 and status in ("compile-error", "compile-recursion", "run-recursion", "convert-recursion"):
        return "K-guard-clause-nesting"
    return None


def run(chk, build, replay=None):
    common.standard_proof_part(chk, build, VFILES)
    chk.trusted += [
        "C17: whether CPython accepts an expression of a given depth (C stack, parser limits, the recursion limit hit by its own "
        "ast.unparse) is run-time behaviour of the interpreter; the theorems bound the depth of the generated expression, the check "
        "measures acceptance on a geometric schedule with the default recursion limit",
    ]
    theorem_families(chk)
    sched = SCHEDULE[chk.tier]
    jobs = []
    triples = diffexec.ALL_CONFIGS if chk.tier == "thorough" else [
        ("oneliner", "list", "if_expr"), ("oneliner", "list", "short_circuit"), ("oneliner", "chain_call", "if_expr"),
        ("ast.unparse", "list", "if_expr"), ("ast.unparse", "chain_call", "short_circuit")]
    for fam, f in FAMILIES.items():
        for n in sched[fam]:
            jobs.append((fam, n, f(n), triples))
    res = diffexec.pool().map(_work, jobs, chunksize=1)
    counts, known = {}, {}
    for (fam, n, src, _), r in zip(jobs, res):
        chk.note_case((fam, n))
        for tr, st, detail in r:
            counts[st] = counts.get(st, 0) + 1
            if st in ("ok", "source-refused"):
                continue
            k = known_class(fam, n, tr, st, detail)
            if k:
                known.setdefault(k, []).append((fam, n, tr))
                continue
            chk.add_violation("a program CPython compiles and runs is refused (or mistranslated) at this size",
                              family=fam, n=n, config=tr, status=st, detail=detail, source_head=src[:200])
    kf = {f["id"]: f for f in common.load_known().get("findings", []) if f["property"] == "C17"}
    for k, hits in known.items():
        if k in kf:
            chk.known_hits.append((k, kf[k]["what"] + f" (re-confirmed on {len(hits)} family/size/config points, e.g. {hits[0]})"))
        else:
            chk.add_violation("failure in a class that is not a listed known finding", cls=k, example=str(hits[0]))
    chk.coverage.setdefault("direct_oracle", {}).update(counts)
    chk.samples = [{"family": j[0], "n": j[1]} for j in jobs[:5]]
    chk.coverage["input_distribution"] = {"families": list(FAMILIES), "points": len(jobs), "configs": len(triples)}
