"""C14 - imports bind the same objects to the same names."""
import itertools
import os
import random

from harness import common, diffexec, propkit

VFILES = ["theories/Namespace.v", "theories/Lower.v", "theories/Imports.v"]
PKGDIR = os.path.join(common.VERIF, "corpus")

FORMS = [
    ("import pkgroot", ["pkgroot"]),
    ("import pkgroot.sub.leaf", ["pkgroot"]),
    ("import pkgroot.sub.leaf as L", ["L"]),
    ("import pkgroot.alpha, pkgroot.zeta as Z, pkgroot.sub", ["pkgroot", "Z"]),
    ("import pkgroot.zeta\nimport pkgroot.alpha as A2\nimport pkgroot.zeta as Z2", ["pkgroot", "A2", "Z2"]),
    ("from pkgroot import zeta, alpha", ["zeta", "alpha"]),
    ("from pkgroot import top_attr as t, alpha", ["t", "alpha"]),
    ("from pkgroot import zeta as z1, zeta as z2, alpha as a1", ["z1", "z2", "a1"]),
    ("from pkgroot.sub import leaf as l, sub_attr", ["l", "sub_attr"]),
    ("from pkgroot.sub import other, leaf", ["other", "leaf"]),
    ("from pkgroot.sub.leaf import leaf_attr", ["leaf_attr"]),
    ("from . import leaf, other", ["leaf", "other"]),
    ("from . import other as o, deep", ["o", "deep"]),
    ("from .deep import bottom as b, deep_attr", ["b", "deep_attr"]),
    ("from .. import zeta, alpha", ["zeta", "alpha"]),
    ("from ..sub.deep import bottom", ["bottom"]),
    ("from .leaf import leaf_attr as la", ["la"]),
    ("from ..alpha import attr", ["attr"]),
    # the same module named by several import statements of one scope: every statement imports for itself
    ("from pkgroot import alpha\nfrom pkgroot import zeta", ["alpha", "zeta"]),
    ("from pkgroot import top_attr\nfrom pkgroot import alpha as A\nfrom pkgroot import top_attr as t2", ["top_attr", "A", "t2"]),
    ("from . import leaf\nfrom . import other as o2\nfrom .. import zeta\nfrom .. import alpha", ["leaf", "o2", "zeta", "alpha"]),
    ("from pkgroot.sub import sub_attr\nfrom pkgroot.sub import leaf", ["sub_attr", "leaf"]),
    ("if 0:\n    from pkgroot import alpha\nfrom pkgroot import zeta", ["zeta"]),
    ("for _i in range(2):\n    from pkgroot import alpha\nelse:\n    from pkgroot import zeta", ["alpha", "zeta"]),
    ("import pkgroot.alpha as A\nimport pkgroot.alpha as B\nimport pkgroot.alpha\nimport pkgroot.zeta", ["A", "B", "pkgroot"]),
    # attributes whose value is false are attributes all the same
    ("from pkgroot import ZERO, FLAG as f, EMPTY, NOTHING, NOLIST as nl, alpha", ["ZERO", "f", "EMPTY", "NOTHING", "nl", "alpha"]),
    ("from pkgroot.sub import sub_zero as z, sub_empty, leaf", ["z", "sub_empty", "leaf"]),
    ("from . import sub_zero, sub_empty as e\nfrom .. import FLAG, zeta", ["sub_zero", "e", "FLAG", "zeta"]),
]


def program(form, names, placement):
    show = "[(n, getattr(v, '__name__', v)) for n, v in [" + ", ".join(f"('{n}', {n})" for n in names) + "]]"
    if placement == "module":
        return f"{form}\nresult = {show}\n"
    if placement == "function":
        body = "\n".join("    " + l for l in form.split("\n"))
        return f"def f():\n{body}\n    return {show}\nresult = f()\nleak = [n for n in {names!r} if n in globals()]\n"
    if placement == "class":
        body = "\n".join("    " + l for l in form.split("\n"))
        return f"class K:\n{body}\n    result = {show}\nresult = K.result\nmembers = sorted(n for n in vars(K) if not n.startswith('__'))\n"
    raise ValueError(placement)


def _work(job):
    import builtins
    import sys
    src, triples = job
    if PKGDIR not in sys.path:
        sys.path.insert(0, PKGDIR)

    def run(mode, code):
        for k in [k for k in sys.modules if k == "pkgroot" or k.startswith("pkgroot.")]:
            del sys.modules[k]
        builtins.__dict__["_ol_import_log"] = []
        g = {"__name__": "pkgroot.sub.runner", "__package__": "pkgroot.sub"}
        try:
            if mode == "exec":
                exec(compile(code, "<s>", "exec"), g)
            else:
                eval(compile(code, "<c>", "eval"), g)
            err = None
        except BaseException as e:
            err = type(e).__name__ + ": " + str(e)[:120]
        obs = {k: repr(v) for k, v in g.items() if k in ("result", "leak", "members")}
        ident = {}
        for k, v in g.items():
            if hasattr(v, "__name__") and getattr(v, "__name__", "").startswith("pkgroot") and not k.startswith("__"):
                ident[k] = sys.modules.get(v.__name__) is v
        return {"error": err, "log": list(builtins.__dict__["_ol_import_log"]), "obs": obs, "identity": ident,
                "modules": sorted(k for k in sys.modules if k.startswith("pkgroot")),
                "globals": sorted(k for k in g if not k.startswith("__") and k not in ("importlib", "itertools", "_"))}
    a = run("exec", src)
    out = []
    for tr in triples:
        try:
            text = diffexec.convert(src, tr)
        except Exception as e:
            out.append((tr, "convert-error", type(e).__name__ + ": " + str(e)[:120]))
            continue
        b = run("eval", text)
        if a == b:
            out.append((tr, "same" if a["error"] is None else "source-raises", str(a["error"])))
        else:
            keys = [k for k in a if a[k] != b[k]]
            out.append((tr, "differs", "; ".join(f"{k}: {a[k]} vs {b[k]}" for k in keys)[:700]))
    return out


def run(chk, build, replay=None):
    common.standard_proof_part(chk, build, VFILES)
    propkit.replay_known(chk, "C14")      # listed design-level deviations of this property: re-confirmed on the real code
    chk.trusted += [
        "C14: Imports.v gives the statements' semantics (language reference) and the semantics of importlib.import_module / "
        "__import__ / attribute reads (importlib documentation) over an abstract import system; both are models of CPython's import "
        "machinery, validated on a vendored package tree whose modules log their own execution (this check), not verified",
        "resolution of relative names (level, __package__) is done by __import__ itself at run time and is only observed",
    ]
    progs, keys = [], []
    for (form, names), placement in itertools.product(FORMS, ("module", "function", "class")):
        progs.append(program(form, names, placement))
        keys.append((form, placement))
    replayed = propkit.load_replay_sources(replay)
    if replayed:
        progs = replayed
    propkit.lower_correspondence(chk, progs, configs=[(False, False), (True, True)])
    triples = [("oneliner", "list", "if_expr"), ("ast.unparse", "chain_call", "short_circuit")]
    if chk.tier == "thorough":
        triples = diffexec.ALL_CONFIGS
    res = diffexec.pool().map(_work, [(p, triples) for p in progs], chunksize=2)
    counts = {}
    for p, r in zip(progs, res):
        chk.note_case(("imp", p))
        for tr, st, detail in r:
            counts[st] = counts.get(st, 0) + 1
            if st not in ("same",):
                chk.add_violation("the converted program imports different modules, in a different order, or binds different objects/names",
                                  source=p, config=tr, status=st, detail=detail)
    chk.coverage.setdefault("direct_oracle", {}).update(counts)
    chk.samples = [{"program": p} for p in progs[:3]]
    chk.coverage["input_distribution"] = {"statement_forms": len(FORMS), "placements": 3, "programs": len(progs), "exhaustive": True}
