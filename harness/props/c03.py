"""C03 - the custom unparser round-trips every expression tree."""
import ast
import random
import sys

from harness import common, coretok, corpus, gen_compose, propkit, sexp, unparsecorr

VFILES = ["theories/Unparse.v", "theories/Parse.v", "theories/ParseProof.v", "theories/ParseTie.v", "theories/LowerCore.v"]


def core_tree(rng, depth):
    """random trees inside the core of Parse.v (operators, chains, conditionals, lambdas, walrus, trailers)"""
    G = gen_compose
    if depth <= 0 or rng.random() < 0.12:
        return rng.choice([G.N("a"), G.N("b"), G.K(1), G.K("s"), G.K(2.5), G.K(None), G.K(True)])
    k = rng.choice(["bin", "bin", "bin", "un", "bool", "cmp", "if", "lam", "wal", "attr", "call", "call", "sub", "list", "tuple", "set", "dict", "comp", "comp",
                    "gencall"])
    star = lambda x: ast.Starred(value=x, ctx=G.L) if rng.random() < 0.2 else x
    r = lambda: core_tree(rng, depth - 1)
    if k == "bin":
        return ast.BinOp(left=r(), op=rng.choice(G.BINOPS)(), right=r())
    if k == "un":
        return ast.UnaryOp(op=rng.choice(G.UNOPS)(), operand=r())
    if k == "bool":
        return ast.BoolOp(op=rng.choice([ast.And, ast.Or])(), values=[r() for _ in range(rng.randint(2, 4))])
    if k == "cmp":
        n = rng.randint(1, 3)
        return ast.Compare(left=r(), ops=[rng.choice(G.CMPOPS)() for _ in range(n)], comparators=[r() for _ in range(n)])
    if k == "if":
        return ast.IfExp(test=r(), body=r(), orelse=r())
    if k == "lam":
        po = ["p", "q"][:rng.choice([0, 0, 1, 2])]
        ar = ["r", "s"][:rng.choice([0, 1, 2])]
        ko = ["k", "m"][:rng.choice([0, 0, 1, 2])]
        return ast.Lambda(args=G.args(posonly=po, a=ar, vararg=rng.choice([None, None, "va"]), kwonly=ko,
                                      kw_defaults=[(r() if rng.random() < 0.5 else None) for _ in ko],
                                      kwarg=rng.choice([None, None, "kw"]),
                                      defaults=[r() for _ in range(rng.randint(0, len(po) + len(ar)))]), body=r())
    if k == "wal":
        return ast.NamedExpr(target=G.S("w"), value=r())
    if k == "attr":
        return ast.Attribute(value=r(), attr="f", ctx=G.L)
    if k == "call":
        return ast.Call(func=r(), args=[star(r()) for _ in range(rng.randint(0, 3))],
                        keywords=[ast.keyword(arg=a, value=r()) for a in rng.sample(["k", "m", None, None], rng.randint(0, 3))])
    if k == "list":
        return ast.List(elts=[star(r()) for _ in range(rng.randint(0, 3))], ctx=G.L)
    if k == "tuple":
        return ast.Tuple(elts=[star(r()) for _ in range(rng.randint(0, 3))], ctx=G.L)
    if k == "set":
        return ast.Set(elts=[star(r()) for _ in range(rng.randint(1, 3))])
    if k == "dict":
        n = rng.randint(0, 3)
        return ast.Dict(keys=[(None if rng.random() < 0.25 else r()) for _ in range(n)], values=[r() for _ in range(n)])
    if k == "gencall":
        # f(x for x in y): a generator expression as the bare only argument
        gens = [ast.comprehension(target=G.S("i"), iter=r(), ifs=[r() for _ in range(rng.randint(0, 2))], is_async=0)
                for _ in range(rng.randint(1, 2))]
        return ast.Call(func=r(), args=[ast.GeneratorExp(elt=r(), generators=gens)], keywords=[])
    if k == "comp":
        def tgt():
            return G.S("i") if rng.random() < 0.6 else ast.Tuple(elts=[G.S("j"), G.S("k")], ctx=ast.Store())
        gens = [ast.comprehension(target=tgt(), iter=r(), ifs=[r() for _ in range(rng.randint(0, 2))], is_async=0)
                for _ in range(rng.randint(1, 2))]
        kind = rng.choice(["list", "set", "dict"])
        if kind == "list":
            return ast.ListComp(elt=r(), generators=gens)
        if kind == "set":
            return ast.SetComp(elt=r(), generators=gens)
        return ast.DictComp(key=r(), value=r(), generators=gens)
    part = lambda: r() if rng.random() < 0.6 else None
    if rng.random() < 0.25:
        # an index tuple with slices among its items (printed without parentheses)
        def item():
            if rng.random() < 0.6:
                return ast.Slice(lower=part(), upper=part(), step=part())
            x = r()
            while isinstance(x, ast.Starred):
                x = r()
            return x
        items = [item() for _ in range(rng.randint(1, 3))]
        if not any(isinstance(x, ast.Slice) for x in items):
            items[0] = ast.Slice(lower=part(), upper=part(), step=part())
        return ast.Subscript(value=r(), slice=ast.Tuple(elts=items, ctx=G.L), ctx=G.L)
    if rng.random() < 0.4:
        return ast.Subscript(value=r(), slice=ast.Slice(lower=part(), upper=part(), step=part()), ctx=G.L)
    s = r()
    while isinstance(s, (ast.Slice, ast.Starred)):
        s = r()
    return ast.Subscript(value=r(), slice=s, ctx=G.L)


def run(chk, build, replay=None):
    common.standard_proof_part(chk, build, VFILES)
    chk.trusted += [
        "C03: Parse.pc is a hand-written model of CPython's expression parser on the operator core (tokens from CPython's "
        "tokenizer); it is validated against ast.parse on the unparser's outputs and on standard-library expressions of "
        "the core; literals are opaque tokens (their spelling is C04's theorem)",
        "C03: outside the core of Parse.v (generator expressions as operands, f-strings, yield/await, nested comprehension targets) the "
        "round trip is decided by CPython's own parser on every generated composition (support)",
    ]
    sys.setrecursionlimit(20000)
    rng = random.Random(chk.seed * 17 + 3)
    big = chk.tier == "thorough"
    exprs, dist = [], {}

    def add(kind, e):
        exprs.append(ast.fix_missing_locations(e))
        dist[kind] = dist.get(kind, 0) + 1
    replayed = None
    if replay:
        import json
        data = json.load(open(replay))
        replayed = [v.get("expr_source") for v in [data.get("violation", {})] + data.get("all_violations", []) if isinstance(v, dict) and v.get("expr_source")]
    if replayed:
        for s in replayed:
            add("replay", ast.parse(s, mode="eval").body)
    else:
        for key, e in gen_compose.depth2():
            add("depth2 (parent,slot) x child: exhaustive", e)
        if not big:
            for key, e in gen_compose.depth3_sensitive():
                add("depth3 compositions of precedence-sensitive kinds: exhaustive", e)
        for e in gen_compose.lambda_signatures():
            add("lambda signatures: exhaustive", e)
        for key, e in (gen_compose.depth3() if big else gen_compose.depth3(rng, 8000)):
            add("depth3 compositions" + ("" if big else " (sample)"), e)
        for _ in range(20000 if big else 1500):
            add("random trees", gen_compose.random_tree(rng, rng.randint(3, 6)))
        for _ in range(20000 if big else 1500):
            add("right-edge trees", gen_compose.right_edge_tree(rng, rng.randint(3, 14)))
        for _ in range(20000 if big else 2000):
            add("core trees", core_tree(rng, rng.randint(2, 7)))
        for _ in range(2000 if big else 200):
            gens = [ast.comprehension(target=gen_compose.S("i"), iter=core_tree(rng, 3), ifs=[core_tree(rng, 2) for _ in range(rng.randint(0, 2))],
                                      is_async=0) for _ in range(rng.randint(1, 2))]
            add("core trees", ast.GeneratorExp(elt=core_tree(rng, rng.randint(1, 4)), generators=gens))
        # what the converter emits (the property names these trees explicitly): whole outputs under the four AST-level
        # configurations, for the feature scripts and the header placements
        import symtable
        from harness import features, gen_place, lowercorr
        import oneliner  # noqa
        conv = sys.modules["oneliner.convert"].convert
        scripts = list(features.PROGRAMS.values()) + [p for _, p in gen_place.function_placements()[::3] + gen_place.class_placements()[::3]]
        n_out = n_core = 0
        for src in scripts:
            for chain, short in ((False, False), (True, False), (False, True), (True, True)):
                try:
                    out = conv(ast.parse(src), symtable.symtable(src, "<s>", "exec"), lowercorr.make_configs(chain, short))
                except Exception:
                    continue
                add("converter outputs (whole one-liners)", out)
                n_out += 1
                try:
                    n_core += coretok.core_top_py(out)
                except RecursionError:
                    pass
        chk.coverage["converter_outputs"] = {"trees": n_out, "inside_the_proved_core": n_core}
        for fn, e in corpus.stdlib_expressions(None if big else 60, seed=chk.seed + 3):
            add("standard library expressions", e)
    chk.coverage["input_distribution"] = dist
    # 1. direct oracle: the real unparser's text parses back to the same tree
    bad = 0
    texts = []
    for e in exprs:
        chk.note_case(("rt", id(e)))
        r = unparsecorr.real_unparse(e)
        if r[0] != "ok":
            texts.append(None)
            if r[1] != "RecursionError":
                chk.add_violation("the unparser raises on an expression tree", expr=ast.dump(e)[:600], error=r[1],
                                  expr_source=_src(e))
            continue
        texts.append(r[1])
        ok, why = unparsecorr.roundtrip_ok(e, r[1])
        if not ok:
            bad += 1
            chk.add_violation("the unparsed text does not parse back to the same tree", text=r[1][:600], why=why[:600],
                              expr=ast.dump(e)[:600], expr_source=_src(e))
    chk.coverage.setdefault("direct_oracle", {}).update({"expressions": len(exprs), "roundtrip_failures": bad})
    # 2. the unparser model is the unparser (string equality)
    sample = exprs if len(exprs) <= 3000 else rng.sample(exprs, 3000 if not big else 20000)
    diffs, stats, _ = unparsecorr.compare(sample)
    chk.coverage.setdefault("correspondence", {})["unparser model = real unparser"] = dict(stats, disagreements=len(diffs))
    if diffs:
        chk.add_broken("correspondence", f"Unparse.unparse and expr_unparse disagree on {len(diffs)} expressions",
                       __import__("json").dumps(diffs[0]))
    # 3. the core: printer of Parse.v = unparser tokens; the parser reads them back (executable form of the theorem)
    core_es = [e for e in exprs if coretok.core_top_py(e)]
    core_sample = core_es if len(core_es) <= 2500 else rng.sample(core_es, 2500 if not big else 15000)
    lines = []
    for e in core_sample:
        try:
            lines.append((e, "(core-check %s)" % sexp.expr(e)))
        except (sexp.Unserialisable, RecursionError):
            pass
    ans = common.model_eval([l for _, l in lines])
    cc = {"in_core": 0, "not_in_core": 0, "tie_fail": 0, "parse_fail": 0}
    for (e, _), a in zip(lines, ans):
        if a == "(ok (1 1 1))":
            cc["in_core"] += 1
        elif a.startswith("(ok (0"):
            cc["not_in_core"] += 1
        elif a.startswith("(ok (1 0"):
            cc["tie_fail"] += 1
            chk.add_broken("correspondence", "Parse.pp differs from the normalised tokens of Unparse.utoks on a core expression",
                           __import__("json").dumps({"expr_source": _src(e), "answer": a}))
        else:
            cc["parse_fail"] += 1
            chk.add_broken("correspondence", "Parse.parse_core does not read back a core expression",
                           __import__("json").dumps({"expr_source": _src(e), "answer": a}))
    chk.coverage["core_check"] = cc
    # 3b. Parse.norm is CPython's tokenizer on the unparser's text: tokens of the REAL text = norm (tokens of the model)
    text_of = {id(e): t for e, t in zip(exprs, texts)}
    tl = []
    for e in core_sample:
        t = text_of.get(id(e))
        if t is None:
            continue
        try:
            tl.append((e, t, "(ok (%s))" % " ".join(coretok.tokens(t)), "(unparse-toks %s)" % sexp.expr(e)))
        except (coretok.NotTokenisable, sexp.Unserialisable, RecursionError, SyntaxError, ValueError, tokenize_error()):
            continue
    tans = common.model_eval([l for _, _, _, l in tl])
    tk = {"agree": 0, "disagree": 0}
    for (e, t, want, _), a in zip(tl, tans):
        if a == want:
            tk["agree"] += 1
        else:
            tk["disagree"] += 1
            if tk["disagree"] <= 3:
                chk.add_broken("correspondence", "Parse.norm (Unparse.unparse_toks e) differs from CPython's tokens of the unparser's text",
                               __import__("json").dumps({"text": t[:400], "model": a[:400], "cpython": want[:400]}))
    chk.coverage["tokens_model_vs_cpython_tokenizer"] = tk
    # 4. the parser model is CPython's parser: tokens (CPython's tokenizer) of the outputs and of library expressions
    plines = []
    for e, t in zip(exprs, texts):
        if t is None or not coretok.core_top_py(e):
            continue
        try:
            back = ast.parse(t, mode="eval").body
            toks = coretok.tokens(t)
            plines.append((t, sexp.expr(back), "(parse-core (%s))" % " ".join(toks)))
        except (coretok.NotTokenisable, sexp.Unserialisable, SyntaxError, ValueError, RecursionError, Exception):
            continue
    if len(plines) > (15000 if big else 2500):
        plines = rng.sample(plines, 15000 if big else 2500)
    pans = common.model_eval([l for _, _, l in plines])
    pc = {"agree": 0, "disagree": 0}
    for (t, want, _), a in zip(plines, pans):
        if a == f"(ok {want})":
            pc["agree"] += 1
        else:
            pc["disagree"] += 1
            if pc["disagree"] <= 3:
                chk.add_broken("correspondence", "Parse.parse_core and ast.parse disagree on a text of the core",
                               __import__("json").dumps({"text": t[:400], "model": a[:300], "cpython": want[:300]}))
    chk.coverage["parser_model_vs_cpython"] = pc
    chk.samples = [{"text": t} for t in texts[:5] if t]


def tokenize_error():
    import tokenize
    return tokenize.TokenError


def _src(e):
    try:
        return ast.unparse(e)
    except Exception:
        return None
