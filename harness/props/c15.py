"""C15 - the generated expression runs identically on every Python 3.8+ runtime."""
import ast
import random
import re

from harness import common, diffexec, features, gen_assign, gen_cf, gen_class, gen_lit, gen_order, gen_place, gen_scope, hostrun, propkit
from harness.props import c07

VFILES = ["theories/Unparse.v", "theories/StrLit.v", "theories/Compat.v"]

CF_PRELUDE = '''
_bits = %r
_pos = [0]
def _bit():
    i = _pos[0]; _pos[0] = i + 1
    return _bits[i] if i < len(_bits) else False
def m(k): print('m', k)
def c(k):
    b = _bit(); print('c', k, b); return (True, 1, [0], 'x', (None,))[k %% 5] if b else (False, 0, [], '', None)[k %% 5]
def v(k): print('v', k); return k
def r(x): print('r', x)
class _It:
    def __init__(self, k): self.k = k; self.n = 0
    def __iter__(self): return self
    def __next__(self):
        if _bit():
            self.n += 1; print('it', self.k, self.n); return self.n
        return next(iter(()))
def it(k): return _It(k)
'''

LIT_PRELUDE = '''
class _O:
    def __init__(s, n): s.n = n; s.k = 3
    def __format__(s, spec): return '<%s|%s>' % (s.n, spec)
    def __repr__(s): return 'O(%s)' % s.n
    def __getitem__(s, i): return s
x = _O('x'); y = _O('y'); z = _O('z'); w = 5; p = 2; q = 1; a = 1; b = 2; c = 1; d = _O('d'); e = 4; i = 0; k = 'k'; v = 'v'; t = 0
'''

WITNESSES = {   # 3.8-valid scripts for the listed known findings (re-confirmed on every run)
    "K-astunparse-pep701-quotes": "d = {'k': 1}\nprint(f\"{d['k']}\")\n",
    "K-astunparse-star-index": "m = {(1, 2, 3): 't'}\nb = [2, 3]\nprint(m[(1, *b)], m[(*b,)] if (*b,) in m else 0)\n",
    "K-fstring-nesting-depth3": "print(f'''{f\"{'a'}\"}''')\n",
    "K-fstring-field-backslash": "print(f\"\"\"{'''a\nb'''}\"\"\")\nprint(f\"\"\"{\"a'b\" + 'c\"d'}\"\"\")\n",
    # the same finding through a Latin-1 letter (written \\xf6 by the project's unparser), also when the converter itself puts
    # the literal into the field (a captured variable becomes a dictionary item)
    "K-fstring-field-backslash/latin1": "d = {'gr\u00f6\u00dfe': 3}\nprint(f\"{d['gr\u00f6\u00dfe']}\")\n"
                                        "def f(gr\u00f6\u00dfe):\n    def g():\n        return f'{gr\u00f6\u00dfe}'\n    return g()\nprint(f(4))\n",
}

# every syntactic slot x an assignment expression (3.8 accepts it bare only as a positional call argument), written with
# parentheses so that the script itself is valid on 3.8
WALRUS_SLOTS = ["d[@]", "s[@:2]", "s[0:@]", "s[::@]", "d[@, 1]", "t[1:2, @]", "t[@:, 0]", "{@}", "{@, 2}", "{1: @}", "{@: 1}", "[@]",
                "[@, 2]", "(@, 2)", "(@,)", "f(@)", "f(1, @)", "f(@, k=1)", "f(k=@)", "f(*[@])", "f(*[1], @)", "f(**{'k': @})",
                "(lambda: @)()", "(lambda a=@: a)()", "@ if 1 else 2", "1 if @ else 2", "1 if 0 else @", "not @", "-@", "@ + 1", "1 + @",
                "@ < 2", "1 < @ < 3", "@ and 1", "1 or @", "0 or @", "f'{@}'", "f'{1:{@}}'", "[*[@]]", "(@).real", "h(@)(@)", "m[@][@]",
                "[@][0]",
                # the element / key / value / condition of EVERY kind of comprehension (an assignment expression in the iterable is
                # refused by Python itself), and a generator expression in each of its written forms (bare as the only argument of a
                # call; parenthesised; as one of several arguments)
                "[@ for i in [1]]", "[i for i in [1] if @]", "[i for i in [1] if i if @]", "sorted({@ for i in [1]})",
                "sorted({i for i in [1] if @})", "{i: @ for i in [1]}", "{@: 1 for i in [1]}", "{i: 1 for i in [1] if @}",
                "list(@ for i in [1])", "list((@ for i in [1]))", "f(*(@ for i in [1]))", "f(1, *(i for i in [1] if @))",
                "list(i for i in [1] if @)", "sum(@ for i in [1, 2])", "[[@ for i in [1]] for j in [1]]"]
WALRUS_PRELUDE = """
class _D(dict):
    def __missing__(self, k): return 0
class _T:
    def __getitem__(self, k): return k
d = _D()
t = _T()
s = [0, 1, 2, 3]
m = [[0, 1], [2, 3]]
def f(*a, **k): return (a, sorted(k.items()))
def h(a): return lambda b: (a, b)
"""

OL = re.compile(r"__ol_([a-z]+)_[a-z]+")


def canon_text(t):
    seen = {}

    def sub(m):
        key = m.group(0)
        if key not in seen:
            seen[key] = f"__ol_{m.group(1)}_{len(seen)}"
        return seen[key]
    return OL.sub(sub, t)


def star_index(src):
    """the script subscripts with a (parenthesised) tuple that has a starred element"""
    try:
        tree = ast.parse(src)
    except (SyntaxError, ValueError, RecursionError):
        return False
    for n in ast.walk(tree):
        if isinstance(n, ast.Subscript):
            sl = n.slice
            if isinstance(sl, ast.Tuple) and any(isinstance(e, ast.Starred) for e in sl.elts):
                return True
    return False


def fstring_depth(src):
    """deepest nesting of string literals inside replacement fields; whether a literal inside a field needs a backslash"""
    try:
        tree = ast.parse(src)
    except (SyntaxError, ValueError, RecursionError):
        return 0, False
    best, needs = 0, False

    def walk(n, d, in_field):
        nonlocal best, needs
        if isinstance(n, ast.JoinedStr):
            best = max(best, d + 1)
            for v in n.values:
                if isinstance(v, ast.FormattedValue):
                    walk(v.value, d + 1, True)
                    if v.format_spec is not None:
                        for sv in v.format_spec.values:
                            if isinstance(sv, ast.FormattedValue):
                                walk(sv.value, d + 1, True)
            return
        if isinstance(n, ast.Constant) and isinstance(n.value, (str, bytes)) and in_field:
            best = max(best, d + 1)
            s = n.value if isinstance(n.value, str) else n.value.decode("latin-1")
            # the project's unparser writes every character below U+0100 that is not printable ASCII as an escape
            if any(ch in "'\"\\" or not ch.isprintable() or 0x80 <= ord(ch) <= 0xFF for ch in s):
                needs = True
        for ch in ast.iter_child_nodes(n):
            walk(ch, d, in_field)
    walk(tree, 0, False)
    return best, needs


def programs(chk):
    rng = random.Random(chk.seed * 31 + 15)
    big = chk.tier == "thorough"
    out, dist = [], {}

    def add(kind, src):
        out.append(src)
        dist[kind] = dist.get(kind, 0) + 1
    for name, src in features.PROGRAMS.items():
        add("feature scripts", src)
    allc = list(gen_class.all_programs())
    for key, p in (rng.sample(allc, 600) if big else rng.sample(allc, 25)):
        add("class programs", p)
    for _, p in gen_place.function_placements() + gen_place.class_placements():
        add("header placements", p)
    # moderately long programs: the older runtimes have smaller parser limits (about 100 nested brackets on 3.8)
    from harness.props import c17
    for fam, n in (("statements", 120), ("statements", 180), ("elif", 40), ("binop", 120), ("calls", 120), ("attrs", 120),
                   ("nested_if", 15), ("nested_for", 8), ("pattern", 20),
                   ("guard_return", 120), ("guard_continue", 120), ("guard_break", 120)):
        add("size probes", c17.FAMILIES[fam](n))
    for _ in range(200 if big else 25):
        b, pl = gen_cf.random_skeleton(rng, 3)
        bits = [rng.random() < 0.6 for _ in range(60)]
        add("control-flow", CF_PRELUDE % (bits,) + gen_cf.program(b, pl))
    for _ in range(200 if big else 25):
        add("destructuring", gen_assign.destructure_program(rng))
    n = 0
    while n < (300 if big else 35):
        t = gen_scope.random_tree(rng, "module", rng.choice([2, 3, 4]), 2)
        s = gen_scope.render(t)
        if gen_scope.accepted(s):
            add("scopes", s)
            n += 1
    # comprehensions below function chains: the symbol tables of a 3.12+ HOST fold a comprehension into its function, those of
    # 3.10 / 3.11 do not - the converter must reach the same resolution on every host
    compchains = [gen_scope.render(t) for t in gen_scope.chain_trees() if gen_scope.has_kind(t, "comp")]
    compchains = [c for c in (compchains if big else rng.sample(compchains, 60)) if gen_scope.accepted(c)]
    for c in compchains:
        add("comprehensions below function chains (host-dependent symbol tables)", c)
    for _ in range(200 if big else 25):
        body, _ = gen_order.program(rng)
        add("probe-programs", gen_order.PRELUDE + body + "\n")
    for name, body in c07.GUARDED.items():
        add("statement-templates", c07.PRELUDE + body + "\n")
    for k, w in WITNESSES.items():
        add("known-finding-witnesses", w)
    for slot in WALRUS_SLOTS:
        add("assignment expression in every slot", WALRUS_PRELUDE + "r = " + slot.replace("@", "(w := 1)") + "\nprint(ascii(r), globals().get('w'))\n")
    lits = list(gen_lit.fstrings(2)) + [gen_lit.random_literal(rng, 2) for _ in range(300 if big else 30)]
    rng.shuffle(lits)
    for e in lits[: (400 if big else 40)]:
        try:
            text = ast.unparse(ast.fix_missing_locations(ast.Expression(body=e)))
            compile(text, "<lit>", "eval")
        except Exception:
            continue
        if "yield" in text or "\\" in text:
            continue
        add("literals", LIT_PRELUDE + f"r = {text}\nprint(ascii(r))\n")
    return out, dist


def run(chk, build, replay=None):
    common.standard_proof_part(chk, build, VFILES)
    chk.trusted += [
        "C15: the grammars of CPython 3.8-3.13 are CPython's; Compat.v states the version-sensitive choices of the project's "
        "unparser (where an assignment expression stays unparenthesised, quote alternation inside f-strings) over the "
        "generated precedence table; that these are the only version-sensitive choices is decided by compiling and running "
        "the outputs on the six interpreters (support)",
        "the `ast.unparse` path is the host interpreter's code: only observed",
    ]
    replayed = propkit.load_replay_sources(replay)
    if replayed:
        progs, dist = replayed, {"replayed": len(replayed)}
    else:
        progs, dist = programs(chk)
    hosts = hostrun.hosts()
    # the property is about scripts whose own syntax is valid on 3.8: keep those that compile and run there
    first = hostrun.run_pairs_on(hosts["3.8.18"], [[s, "0"] for s in progs])
    kept = [s for s, (st, _) in zip(progs, first) if st != "source-syntax"]
    dist["not_3.8_syntax_dropped"] = len(progs) - len(kept)
    progs = kept
    chk.coverage["input_distribution"] = dist
    conv_hosts = [v for v in hosts if tuple(int(x) for x in v.split(".")[:2]) >= (3, 10)]
    runtimes = [v for v in hosts if tuple(int(x) for x in v.split(".")[:2]) >= (3, 8)]
    triples = diffexec.ALL_CONFIGS
    known = {f["id"]: f for f in common.load_known().get("findings", []) if f["property"] == "C15"}
    # 1. convert on every host
    pairs, origin = [], {}
    conv_stats = {}
    for hv in conv_hosts:
        rows = hostrun.convert_on(hosts[hv], progs, triples)
        ok = err = 0
        for src, row in zip(progs, rows):
            for tr, (st, text) in zip(triples, row):
                if st != "ok":
                    err += 1
                    continue
                ok += 1
                key = (src, canon_text(text))
                if key not in origin:
                    origin[key] = (hv, tr, text)
                    pairs.append([src, text])
        conv_stats[hv] = {"converted": ok, "refused": err}
    chk.coverage["conversions"] = conv_stats
    chk.coverage["distinct_outputs"] = len(pairs)
    # 2. run every distinct output on every runtime
    run_stats = {}
    keys = list(origin)
    for rv in runtimes:
        res = hostrun.run_pairs_on(hosts[rv], pairs)
        c = {}
        for key, (st, detail) in zip(keys, res):
            src = key[0]
            hv, tr, text = origin[key]
            chk.note_case(("runtime", rv, key))
            cls = None
            if st in ("text-syntax", "differs") and tuple(int(x) for x in rv.split(".")[:2]) < (3, 12):
                # the literals that matter are those of the OUTPUT (the converter adds some: __ol_nonlocal_x['name'])
                d1, n1 = fstring_depth(src)
                d2, n2 = fstring_depth(text)
                depth, needs = max(d1, d2), (n1 or n2)
                if tr[0] == "ast.unparse" and tuple(int(x) for x in hv.split(".")[:2]) >= (3, 12) and depth >= 2:
                    cls = "K-astunparse-pep701-quotes"
                elif (tr[0] == "ast.unparse" and st == "text-syntax" and tuple(int(x) for x in hv.split(".")[:2]) >= (3, 11)
                      and tuple(int(x) for x in rv.split(".")[:2]) < (3, 11) and star_index(src)):
                    cls = "K-astunparse-star-index"
                elif depth >= 3:
                    cls = "K-fstring-nesting-depth3"
                elif needs:
                    cls = "K-fstring-field-backslash"
            if cls is not None and cls in known:
                st = "known:" + cls
                if (cls, known[cls]["what"]) not in chk.known_hits:
                    chk.known_hits.append((cls, known[cls]["what"]))
            c[st] = c.get(st, 0) + 1
            if st in ("text-syntax", "differs", "compile-recursion"):
                chk.add_violation(f"the output produced on host {hv} does not behave like the script on runtime {rv}",
                                  source=src, config=tr, host=hv, runtime=rv, status=st, detail=detail, text=text[:600])
        run_stats[rv] = c
    chk.coverage["runtimes"] = run_stats
    chk.samples = [{"source": p[-300:]} for p in progs[:4]]
