"""C13 - assignment, destructuring and augmented assignment store what Python stores."""
import random

from harness import common, gen_assign, propkit

VFILES = ["theories/Namespace.v", "theories/Lower.v", "theories/Unpack.v", "theories/UnpackProof.v", "theories/AugOps.v"]


def run(chk, build, replay=None):
    common.standard_proof_part(chk, build, VFILES)
    chk.trusted += [
        "C13: Unpack.v's py_index/py_slice/unpack are reference semantics written from the language reference; they are "
        "validated by executing every generated program under CPython (direct oracle), not verified",
        "theorems cover flat patterns at module level for all lengths/values; nested patterns, other placements and "
        "attribute/subscript/slice targets are covered by AST correspondence + differential execution only",
        "in-place methods returning NotImplemented are outside the proved object model",
    ]
    rng = random.Random(chk.seed * 31 + 13)
    progs, keys = [], []
    replayed = propkit.load_replay_sources(replay)
    if replayed:
        progs = replayed
    else:
        for key, p in gen_assign.all_aug_programs():
            if key[2] == "slice" and key[3] == "class":
                continue   # rejected by the converter (KeyError on `slice` in a class namespace): outside the fragment
            progs.append(p); keys.append(key)
        for key, p in gen_assign.store_programs():
            progs.append(p); keys.append(key)
        n = 300 if chk.tier == "quick" else 4000
        for i in range(n):
            progs.append(gen_assign.destructure_program(rng)); keys.append(("destructure", i))
    bad = propkit.lower_correspondence(chk, progs)
    propkit.oracle_exec(chk, progs, what="a target (or an alias) holds a different value than in the original program")
    chk.samples = [{"program": p[-400:]} for p in progs[-3:]] + [{"program": progs[0][-300:]}]
    chk.coverage["input_distribution"] = {"programs": len(progs), "augmented": sum(1 for k in keys if len(k) == 4),
                                          "destructuring": sum(1 for k in keys if k[0] == "destructure")}
