"""C13 - assignment, destructuring and augmented assignment store what Python stores."""
import random

import ast

from harness import common, gen_assign, propkit, sexp

VFILES = ["theories/Namespace.v", "theories/Lower.v", "theories/Unpack.v", "theories/UnpackProof.v", "theories/UnpackNested.v",
          "theories/AugOps.v"]


def _value(rng, shape, perturb):
    """a nested list matching `shape` (or, with `perturb`, deliberately not matching it somewhere)"""
    items = []
    for s in shape:
        if s == "n":
            items.append(rng.randint(0, 99))
        elif s == ("*",):
            items.extend(rng.randint(0, 99) for _ in range(rng.randint(0, 3)))
        else:
            items.append(_value(rng, s, perturb))
    if perturb and rng.random() < 0.25:
        k = rng.random()
        if k < 0.4 and items:
            items.pop(rng.randrange(len(items)))
        elif k < 0.8:
            items.insert(rng.randrange(len(items) + 1), rng.randint(0, 99))
        else:
            return rng.randint(0, 99)            # an atom where a sequence is expected: TypeError
    return items


def _vsexp(v):
    if isinstance(v, (list, tuple)):
        return "(s" + "".join(" " + _vsexp(x) for x in v) + ")"
    return f"(a {v})"


def nested_reference_cases(rng, n):
    """(pattern text, value, command line, expected answer): CPython's own unpacking is the expectation for BOTH the
    reference semantics UnpackNested.bind and the in-order run of the stores the converter model emits"""
    out = []
    while len(out) < n:
        names = []
        pat, shape = gen_assign.gen_pattern(rng, 3, names)
        if len(shape) == 1:
            pat += ","
        value = _value(rng, shape, perturb=rng.random() < 0.35)
        if not isinstance(value, list):
            continue
        g = {"V": value}
        try:
            exec(f"{pat} = V", g)
            binds = "(" + " ".join(f"({sexp.ident(nm)} {_vsexp(g[nm])})" for nm in names) + ")"
            want = f"(ok (({binds}) ({binds})))" if names else "(ok ((()) (())))"
        except (ValueError, TypeError):
            want = "(ok (() "          # Python refuses: the reference semantics must refuse too; what the emitted stores do
                                       # with a value Python refuses (no length check: `v0, = [1, 2]`) is outside the theorem
        target = ast.parse(f"{pat} = V").body[0].targets[0]
        out.append((pat, value, f"(unpack-nested {sexp.expr(target)} {_vsexp(value)})", want))
    return out


def run(chk, build, replay=None):
    common.standard_proof_part(chk, build, VFILES)
    propkit.replay_known(chk, "C13")      # listed design-level deviations of this property: re-confirmed on the real code
    chk.trusted += [
        "C13: Unpack.v's py_index/py_slice/unpack are reference semantics written from the language reference; they are "
        "validated by executing every generated program under CPython (direct oracle), not verified",
        "theorems cover flat AND nested patterns (any depth) of names at module level for all lengths/values (UnpackNested: "
        "values are finite nested sequences - one-shot iterators are materialised by tuple()); other placements and "
        "attribute/subscript/slice targets inside patterns are covered by AST correspondence + differential execution only",
        "in-place methods returning NotImplemented are outside the proved object model",
    ]
    rng = random.Random(chk.seed * 31 + 13)
    progs, keys = [], []
    replayed = propkit.load_replay_sources(replay)
    if replayed:
        progs = replayed
    else:
        for key, p in gen_assign.all_aug_programs():
            if key[2] == "slice" and key[3] == "class":
                continue   # rejected by the converter (KeyError on `slice` in a class namespace): outside the fragment
            progs.append(p); keys.append(key)
        for key, p in gen_assign.store_programs():
            progs.append(p); keys.append(key)
        n = 300 if chk.tier == "quick" else 4000
        for i in range(n):
            progs.append(gen_assign.destructure_program(rng)); keys.append(("destructure", i))
    # the reference semantics of nested unpacking and the evaluator of the emitted stores, against CPython itself
    cases = nested_reference_cases(rng, 400 if chk.tier == "quick" else 6000)
    answers = common.model_eval([c[2] for c in cases])
    agree = ok_binds = 0
    for (pat, value, line, want), a in zip(cases, answers):
        chk.note_case(("nested-ref", pat, repr(value)))
        if a == want or (want == "(ok (() " and a.startswith(want)):
            agree += 1
            ok_binds += want != "(ok (() "
        else:
            chk.add_broken("correspondence", "UnpackNested.bind / UnpackNested.run disagree with CPython's unpacking",
                           __import__("json").dumps({"pattern": pat, "value": value, "model": a[:400], "cpython": want[:400]}))
            break
    chk.coverage.setdefault("correspondence", {})["nested unpacking: reference semantics and store evaluator vs CPython"] = {
        "cases": len(cases), "agree": agree, "successful_bindings": ok_binds, "rejected_by_python": agree - ok_binds}
    bad = propkit.lower_correspondence(chk, progs)
    propkit.oracle_exec(chk, progs, what="a target (or an alias) holds a different value than in the original program")
    chk.samples = [{"program": p[-400:]} for p in progs[-3:]] + [{"program": progs[0][-300:]}]
    chk.coverage["input_distribution"] = {"programs": len(progs), "augmented": sum(1 for k in keys if len(k) == 4),
                                          "destructuring": sum(1 for k in keys if k[0] == "destructure")}
