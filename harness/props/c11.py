"""C11 - functions keep their signature, call binding, defaults and decorators."""
import itertools
import random

from harness import common, diffexec, gen_place, propkit

VFILES = ["theories/Namespace.v", "theories/Lower.v", "theories/FuncDef.v", "theories/KSem.v", "theories/KSim.v"]


def param_shapes():
    """every legal parameter list with up to 2 parameters per kind; defaults are d(k) probes"""
    def names(prefix, n):
        return [f"{prefix}{i}" for i in range(n)]
    out = []
    for npos, narg, va, nkw, kw in itertools.product(range(3), range(3), (False, True), range(3), (False, True)):
        positional = names("p", npos) + names("a", narg)
        for ndef in range(len(positional) + 1):
            for kwdefs in itertools.product((False, True), repeat=nkw):
                parts, k = [], 0
                for i, nm in enumerate(positional):
                    if i >= len(positional) - ndef:
                        k += 1
                        parts.append(f"{nm}=d({k})")
                    else:
                        parts.append(nm)
                    if i == npos - 1:
                        parts.append("/")
                if va:
                    parts.append("*va")
                elif nkw:
                    parts.append("*")
                for nm, hasd in zip(names("k", nkw), kwdefs):
                    if hasd:
                        k += 1
                        parts.append(f"{nm}=d({k})")
                    else:
                        parts.append(nm)
                if kw:
                    parts.append("**kw")
                allnames = positional + (["va"] if va else []) + names("k", nkw) + (["kw"] if kw else [])
                out.append((", ".join(parts), allnames))
    return out


CALLS = [
    "()", "(1,)", "(1, 2)", "(1, 2, 3)", "(1, 2, 3, 4, 5)", "(p0=1,)", "(a0=1,)", "(a1=2, a0=1)", "(1, a0=2)",
    "(1, 2, k0=3)", "(k0=1, k1=2)", "(1, k1=2)", "(zz=1,)", "(1, 2, zz=3)", "(*[1, 2, 3])", "(**{'a0': 1, 'k0': 2})",
    "(1, *[2], k0=3, **{'k1': 4})", "(1, 2, 3, 4, k0=5, k1=6)", "(p0=1, p1=2)", "(1, 2, a0=3)",
]


def program(params, allnames, decorated, captured=0):
    """captured: 1 = every parameter is read by a nested function, 2 = by a nested class body and rebound by a nested function
    (the bound values must reach the inner scopes whatever the kind of the parameter)"""
    deco = "@dec(1)\n@dec(2)\n" if decorated else ""
    ret = "(" + ", ".join(allnames) + ("," if allnames else "") + ")"
    if captured == 1 and allnames:
        return f"{deco}def f({params}):\n    def inner():\n        return {ret}\n    return inner()\nlog('defined')\n"
    if captured == 2 and allnames:
        nl = ", ".join(allnames)
        return (f"{deco}def f({params}):\n    class Box:\n        seen = {ret}\n    def bump():\n        nonlocal {nl}\n"
                f"        {allnames[0]} = ('rebound', {allnames[0]})\n    bump()\n    return (Box.seen, {ret})\nlog('defined')\n")
    return f"{deco}def f({params}):\n    return {ret}\nlog('defined')\n"


HOOK_PRELUDE = '''import functools
class Wrap:
    def __init__(self, f): self.f = f
    def __call__(self, *a, **k): return ('wrap', self.f(*a, **k))
def part(f):
    return functools.partial(f, 10)
def plain(f):
    def g(*a, **k): return ('plain', f(*a, **k))
    return g
def show(f, *a, **k):
    return f(*a, **k)
'''


def hook_programs():
    """decorated methods whose decorators return something that is NOT a plain function (a callable instance, a
    functools.partial, a builtin) - the class hooks `__class_getitem__` / `__init_subclass__` among them: the name is bound to
    exactly what the decorators returned, and calls bind their arguments as in Python"""
    bodies = {
        "getitem-callable-instance": "class Table:\n    @Wrap\n    def __class_getitem__(item, scale=10):\n        return ('item', item, scale)\n"
                                     "print(Table[3], show(Table.__class_getitem__, 4, scale=2), type(Table.__dict__['__class_getitem__']).__name__)\n",
        "getitem-partial": "class Table:\n    @part\n    def __class_getitem__(ten, item, scale=1):\n        return ('item', ten, item, scale)\n"
                           "print(Table[3], show(Table.__class_getitem__, 4, scale=2))\n",
        "getitem-plain": "class Table:\n    @plain\n    def __class_getitem__(cls, item):\n        return ('item', cls.__name__, item)\n"
                         "print(Table[3], show(Table.__class_getitem__, 4))\n",
        "getitem-builtin": "class Table:\n    @(lambda f: len)\n    def __class_getitem__(cls, item):\n        return item\n"
                           "print(Table['abc'], show(Table.__class_getitem__, 'ab'))\n",
        "subclass-partial": "LOG = []\nclass Base:\n    @part\n    def __init_subclass__(ten, **kw):\n        LOG.append(('isc', ten, sorted(kw)))\n"
                            "class Sub(Base, flag=1):\n    pass\nprint(LOG, show(Base.__init_subclass__, z=2), LOG)\n",
        "subclass-callable-instance": "LOG = []\nclass Base:\n    @Wrap\n    def __init_subclass__(**kw):\n        LOG.append(('isc', sorted(kw)))\n        return len(LOG)\n"
                                      "class Sub(Base, flag=1):\n    pass\nprint(LOG, show(Base.__init_subclass__, z=2))\n",
        "method-callable-instance": "class K:\n    @Wrap\n    def m(a, b=2):\n        return (a, b)\n    @staticmethod\n    @plain\n    def s(a, b=3):\n        return (a, b)\n"
                                    "print(K.m(1), K().m(5, b=6), K.s(1), K().s(4, 5))\n",
    }
    out = []
    for name, body in bodies.items():
        out.append(((name, "module"), HOOK_PRELUDE + body))
        ind = "\n".join("    " + l for l in body.rstrip("\n").split("\n"))
        out.append(((name, "function"), HOOK_PRELUDE + "def w_():\n" + ind.replace("LOG = []", "global LOG\n    LOG = []") + "\nw_()\n"))
    return out


def _work(job):
    import inspect
    import sys
    sys.setrecursionlimit(20000)
    src, triples = job
    out = []

    def run(mode, code):
        log = []

        def d(k):
            log.append(("default", k))
            return ("dv", k)

        def dec(k):
            log.append(("dec-eval", k))

            def apply(fn):
                log.append(("dec-apply", k))
                return fn
            return apply
        g = {"d": d, "dec": dec, "log": log.append, "__name__": "__main__"}
        try:
            if mode == "exec":
                exec(compile(code, "<s>", "exec"), g)
            else:
                eval(compile(code, "<c>", "eval"), g)
        except Exception as e:
            return {"error": type(e).__name__ + ": " + str(e)[:100]}
        f = g.get("f")
        res = []
        for c in CALLS:
            try:
                res.append(repr(eval("f" + c if not c.startswith("(") or True else c, {"f": f})))
            except TypeError:
                res.append("TypeError")
            except Exception as e:
                res.append(type(e).__name__)
        try:
            sig = str(inspect.signature(f))
        except Exception as e:
            sig = "no-signature:" + type(e).__name__
        return {"log_at_definition": list(log), "calls": res, "signature": sig}
    a = run("exec", src)
    for tr in triples:
        try:
            text = diffexec.convert(src, tr)
        except Exception as e:
            out.append((tr, "convert-error", type(e).__name__ + ": " + str(e)[:100]))
            continue
        b = run("eval", text)
        if a == b:
            out.append((tr, "same", ""))
        else:
            keys = [k for k in set(a) | set(b) if a.get(k) != b.get(k)]
            out.append((tr, "differs", "; ".join(f"{k}: {str(a.get(k))[:300]} vs {str(b.get(k))[:300]}" for k in keys)))
    return out


def run(chk, build, replay=None):
    common.standard_proof_part(chk, build, VFILES)
    chk.trusted += [
        "C11: that equal `arguments` records make `def` and `lambda` bind calls identically is CPython's construction (trusted); "
        "annotations are erased (not modelled); the oracle compares inspect.signature, bound arguments / TypeError for a battery "
        "of call shapes and the order of default/decorator evaluation at definition time",
    ]
    rng = random.Random(chk.seed * 5 + 11)
    shapes = param_shapes()
    if chk.tier == "quick":
        sel = rng.sample(shapes, 220)
    else:
        sel = shapes
    progs = []
    for i, (params, names) in enumerate(sel):
        progs.append(program(params, names, decorated=(i % 3 == 0), captured=(i // 3) % 3))
    replayed = propkit.load_replay_sources(replay)
    if replayed:
        progs = replayed
    propkit.lower_correspondence(chk, progs, configs=[(False, False), (True, True)])
    triples = [("oneliner", "list", "if_expr"), ("ast.unparse", "chain_call", "short_circuit"), ("oneliner", "chain_call", "if_expr")]
    if chk.tier == "thorough":
        triples = diffexec.ALL_CONFIGS
    res = diffexec.pool().map(_work, [(p, triples) for p in progs], chunksize=4)
    counts = {}
    for p, r in zip(progs, res):
        chk.note_case(("sig", p))
        for tr, st, detail in r:
            counts[st] = counts.get(st, 0) + 1
            if st != "same":
                chk.add_violation("the converted function differs in signature, call binding, returned value or in the evaluation of "
                                  "defaults/decorators", source=p, config=tr, status=st, detail=detail[:800])
    chk.coverage.setdefault("direct_oracle", {}).update(counts)
    # the header (defaults, decorators) resolved in every kind of DEFINING scope: module, function locals / parameters /
    # captured variables, class members, nested two deep, declared global, lambdas
    placed = [] if replayed else [s for _, s in gen_place.function_placements()] + [s for _, s in hook_programs()]
    propkit.lower_correspondence(chk, placed, configs=[(False, False), (True, True)], label="converter(function placements)")
    propkit.oracle_exec(chk, placed, triples, what="a function defined in a nested scope evaluates its defaults / decorators in "
                        "a different scope or binds calls differently", reject_ok=False)
    chk.samples = [{"program": p} for p in progs[:3]]
    chk.coverage["input_distribution"] = {"parameter_list_shapes_total": len(shapes), "programs": len(progs),
                                          "header_placement_programs": len(placed),
                                          "call_shapes": len(CALLS), "configs": len(triples),
                                          "exhaustive": chk.tier == "thorough"}
