"""C01 - the converted one-liner behaves exactly like the source script (whole fragment, all option combinations)."""
import glob
import os
import random

from harness import common, diffexec, features, gen_assign, gen_cf, gen_class, gen_order, gen_scope, hostrun, propkit
from harness.props import c07, c15

VFILES = ["theories/Lower.v", "theories/KSem.v", "theories/KSimBase.v", "theories/KSim.v", "theories/Equiv.v"]


def signature_programs(rng, count):
    """functions and lambdas of every parameter shape (defaults on ANY subset of the keyword-only parameters, on a suffix of the
    positional ones), called with the required arguments only, so that every default value is observed"""
    import itertools
    shapes = []
    for npos, narg, va, nkw, kw in itertools.product(range(2), range(3), (False, True), range(4), (False, True)):
        for ndef in range(npos + narg + 1):
            for kwdefs in itertools.product((False, True), repeat=nkw):
                shapes.append((npos, narg, va, nkw, kw, ndef, kwdefs))
    fixed = [sh for sh in shapes if sh[0] == 0 and sh[1] == 0 and not sh[2] and not sh[4] and sh[3] >= 2]
    chosen = fixed + rng.sample(shapes, count)
    out = []
    for npos, narg, va, nkw, kw, ndef, kwdefs in chosen:
        positional = [f"p{i}" for i in range(npos)] + [f"a{i}" for i in range(narg)]
        parts, args, k = [], [], 0
        for i, nm in enumerate(positional):
            if i >= len(positional) - ndef:
                k += 1
                parts.append(f"{nm}={k * 10}")
            else:
                parts.append(nm)
                args.append(str(i + 1))
            if i == npos - 1:
                parts.append("/")
        if va:
            parts.append("*va")
        elif nkw:
            parts.append("*")
        for j, hasd in enumerate(kwdefs):
            if hasd:
                k += 1
                parts.append(f"k{j}={k * 10}")
            else:
                parts.append(f"k{j}")
                args.append(f"k{j}={j + 100}")
        if kw:
            parts.append("**kw")
        names = positional + (["va"] if va else []) + [f"k{j}" for j in range(nkw)] + (["kw"] if kw else [])
        ret = "(" + ", ".join(names) + ("," if names else "") + ")"
        sig, call = ", ".join(parts), ", ".join(args)
        out.append(f"def f({sig}):\n    return {ret}\nprint(f({call}))\ng = lambda {sig}: {ret}\nprint(g({call}))\n"
                   f"class K:\n    def m(self{', ' if sig else ''}{sig}):\n        return {ret}\nprint(K().m({call}))\n")
    return out


def programs(chk):
    rng = random.Random(chk.seed * 29 + 1)
    big = chk.tier == "thorough"
    out, dist = [], {}

    def add(kind, src):
        out.append(src)
        dist[kind] = dist.get(kind, 0) + 1
    for name, src in features.PROGRAMS.items():
        add("feature scripts", src)
    for fn in sorted(glob.glob("/repo/oneliner_tests/test_cases/*.py")):
        add("the repository's test scripts", open(fn).read())
    for _ in range(600 if big else 40):
        b, pl = gen_cf.random_skeleton(rng, 3)
        bits = [rng.random() < 0.6 for _ in range(60)]
        add("control-flow skeletons", c15.CF_PRELUDE % (bits,) + gen_cf.program(b, pl))
    for _ in range(600 if big else 40):
        add("destructuring", gen_assign.destructure_program(rng))
    for _, p in gen_assign.store_programs():
        add("stores (slices, simultaneous and chained assignments)", p)
    allc = list(gen_class.all_programs())
    for key, p in (allc if big else rng.sample(allc, 60)):
        add("class programs", p)
    n = 0
    while n < (1500 if big else 60):
        t = gen_scope.random_tree(rng, "module", rng.choice([2, 3, 4]), 2)
        s = gen_scope.render(t)
        if gen_scope.accepted(s):
            add("scope trees", s)
            n += 1
    for _ in range(800 if big else 50):
        body, _ = gen_order.program(rng)
        add("probe programs", gen_order.PRELUDE + body + "\n")
    for name, body in c07.GUARDED.items():
        add("statement templates", c07.PRELUDE + body + "\n")
    for p in signature_programs(rng, 400 if big else 30):
        add("parameter shapes (defaults on any subset of the keyword-only parameters)", p)
    return out, dist


def run(chk, build, replay=None):
    common.standard_proof_part(chk, build, VFILES)
    chk.trusted += [
        "C01: the composition of the per-construct theorems into one behavioural theorem is not proved; whole-program "
        "behaviour is decided by exec/eval comparison (stdout, user globals, exception type) on the explored programs",
        "C01: KSem.run (scaffolding evaluator) and Equiv.eval_chain (call-by-value evaluation of the chained call) are models "
        "of CPython, validated by the differential oracle",
    ]
    replayed = propkit.load_replay_sources(replay)
    if replayed:
        progs, dist = replayed, {"replayed": len(replayed)}
    else:
        progs, dist = programs(chk)
    chk.coverage["input_distribution"] = dist
    rng = random.Random(chk.seed + 11)
    # the model is the converter on these programs (both wrappers / both if styles)
    sample = [p for p in progs if len(p) < 20000]
    sample = sample if len(sample) <= 250 else rng.sample(sample, 250 if chk.tier == "quick" else 2000)
    propkit.lower_correspondence(chk, sample, label="converter(whole-fragment programs)")
    # direct oracle: 8 option combinations on this interpreter
    known = {f["id"] for f in common.load_known().get("findings", [])}

    def accept(src, tr, status, detail):
        return False
    propkit.oracle_exec(chk, progs, diffexec.ALL_CONFIGS, accept=accept)
    # the other interpreters that can run the converter
    hs = progs if len(progs) <= 150 else rng.sample(progs, 150 if chk.tier == "quick" else 1500)
    host_cov = {}
    for v, exe in hostrun.hosts().items():
        major = tuple(int(x) for x in v.split(".")[:2])
        if major < (3, 10) or v.startswith("3.12"):
            continue
        ver, rr = hostrun.run_on(exe, hs, diffexec.ALL_CONFIGS)
        c = {}
        for src, r in zip(hs, rr):
            for tr, st, detail in r:
                if st == "differs" and major >= (3, 12) and any(m in detail for m in ("cannot access local variable", "cannot access free variable")):
                    st = "attributed-to-cpython-pep709-defect"
                if st == "convert-error" and detail.split(":")[0] in ("SyntaxError", "RuntimeError", "NotImplementedError"):
                    # an explicit refusal on this host (e.g. the project's unparser refuses, before 3.12, an f-string whose text
                    # contains a backslash): the property is about the scripts the converter accepts
                    st = "refused-on-this-host"
                c[st] = c.get(st, 0) + 1
                if st in ("differs", "not-an-expression", "newline", "convert-error"):
                    chk.add_violation(f"the converted program behaves differently from the script on CPython {v}",
                                      source=src, config=tr, host=v, status=st, detail=detail)
        host_cov[v] = c
    chk.coverage["hosts"] = host_cov
    chk.samples = [{"source": p[-300:]} for p in progs[:3]]
