"""Expression compositions for C03: every (parent node kind, slot) x (child node kind), to a given depth, over the
complete node/operator catalogue.  A template is (name, arity, builder); a builder takes `arity` expressions."""
import ast
import itertools

L = ast.Load()


def N(s="n"):
    return ast.Name(id=s, ctx=L)


def K(v):
    return ast.Constant(value=v)


def args(posonly=(), a=(), vararg=None, kwonly=(), kw_defaults=(), kwarg=None, defaults=()):
    mk = lambda s: ast.arg(arg=s, annotation=None)
    return ast.arguments(posonlyargs=[mk(x) for x in posonly], args=[mk(x) for x in a], vararg=mk(vararg) if vararg else None,
                         kwonlyargs=[mk(x) for x in kwonly], kw_defaults=list(kw_defaults), kwarg=mk(kwarg) if kwarg else None,
                         defaults=list(defaults))


def comp(target, it, ifs=()):
    return ast.comprehension(target=target, iter=it, ifs=list(ifs), is_async=0)


def S(s):
    return ast.Name(id=s, ctx=ast.Store())


BINOPS = [ast.Add, ast.Sub, ast.Mult, ast.MatMult, ast.Div, ast.Mod, ast.Pow, ast.LShift, ast.RShift, ast.BitOr, ast.BitXor,
          ast.BitAnd, ast.FloorDiv]
UNOPS = [ast.Invert, ast.Not, ast.UAdd, ast.USub]
CMPOPS = [ast.Eq, ast.NotEq, ast.Lt, ast.LtE, ast.Gt, ast.GtE, ast.Is, ast.IsNot, ast.In, ast.NotIn]


def templates():
    T = []
    add = lambda name, n, f: T.append((name, n, f))
    add("Name", 0, lambda: N("x"))
    for nm, v in [("int", 7), ("float", 1.5), ("str", "s'\""), ("None", None), ("True", True), ("bytes", b"b"), ("complex", 2j),
                  ("Ellipsis", ...), ("bigint", 10 ** 30), ("expfloat", 1e22)]:
        add("Constant:" + nm, 0, (lambda v: lambda: K(v))(v))
    add("JoinedStr:field", 1, lambda a: ast.JoinedStr(values=[K("t"), ast.FormattedValue(value=a, conversion=-1, format_spec=None)]))
    add("JoinedStr:conv+spec", 2, lambda a, b: ast.JoinedStr(values=[ast.FormattedValue(
        value=a, conversion=114, format_spec=ast.JoinedStr(values=[K(">"), ast.FormattedValue(value=b, conversion=-1, format_spec=None)]))]))
    for op in BINOPS:
        add("BinOp:" + op.__name__, 2, (lambda op: lambda a, b: ast.BinOp(left=a, op=op(), right=b))(op))
    for op in (ast.And, ast.Or):
        add("BoolOp:" + op.__name__, 2, (lambda op: lambda a, b: ast.BoolOp(op=op(), values=[a, b]))(op))
        add("BoolOp3:" + op.__name__, 3, (lambda op: lambda a, b, c: ast.BoolOp(op=op(), values=[a, b, c]))(op))
    for op in UNOPS:
        add("UnaryOp:" + op.__name__, 1, (lambda op: lambda a: ast.UnaryOp(op=op(), operand=a))(op))
    add("List", 2, lambda a, b: ast.List(elts=[a, b], ctx=L))
    add("List:star", 2, lambda a, b: ast.List(elts=[ast.Starred(value=a, ctx=L), b], ctx=L))
    add("Tuple1", 1, lambda a: ast.Tuple(elts=[a], ctx=L))
    add("Tuple2", 2, lambda a, b: ast.Tuple(elts=[a, b], ctx=L))
    add("Tuple:star", 1, lambda a: ast.Tuple(elts=[ast.Starred(value=a, ctx=L)], ctx=L))
    add("Tuple0", 0, lambda: ast.Tuple(elts=[], ctx=L))
    add("Set", 2, lambda a, b: ast.Set(elts=[a, b]))
    add("Set:star", 1, lambda a: ast.Set(elts=[ast.Starred(value=a, ctx=L)]))
    add("Dict", 3, lambda a, b, c: ast.Dict(keys=[a, None], values=[b, c]))
    add("Dict0", 0, lambda: ast.Dict(keys=[], values=[]))
    for op in CMPOPS:
        add("Compare:" + op.__name__, 2, (lambda op: lambda a, b: ast.Compare(left=a, ops=[op()], comparators=[b]))(op))
    add("Compare:chain", 3, lambda a, b, c: ast.Compare(left=a, ops=[ast.Lt(), ast.NotIn()], comparators=[b, c]))
    add("Attribute", 1, lambda a: ast.Attribute(value=a, attr="a", ctx=L))
    add("Subscript", 2, lambda a, b: ast.Subscript(value=a, slice=b, ctx=L))
    add("Subscript:slice", 4, lambda a, b, c, d: ast.Subscript(value=a, slice=ast.Slice(lower=b, upper=c, step=d), ctx=L))
    add("Subscript:slice-open", 2, lambda a, b: ast.Subscript(value=a, slice=ast.Slice(lower=None, upper=b, step=None), ctx=L))
    add("Subscript:tuple", 3, lambda a, b, c: ast.Subscript(value=a, slice=ast.Tuple(elts=[b, c], ctx=L), ctx=L))
    add("Subscript:tuple1", 2, lambda a, b: ast.Subscript(value=a, slice=ast.Tuple(elts=[b], ctx=L), ctx=L))
    add("Subscript:tuple-slice", 4, lambda a, b, c, d: ast.Subscript(
        value=a, slice=ast.Tuple(elts=[ast.Slice(lower=b, upper=c, step=None), d], ctx=L), ctx=L))
    add("Call0", 1, lambda f: ast.Call(func=f, args=[], keywords=[]))
    add("Call1", 2, lambda f, a: ast.Call(func=f, args=[a], keywords=[]))
    add("Call2", 3, lambda f, a, b: ast.Call(func=f, args=[a, b], keywords=[]))
    add("Call:star", 3, lambda f, a, b: ast.Call(func=f, args=[ast.Starred(value=a, ctx=L), b], keywords=[]))
    add("Call:kw", 3, lambda f, a, b: ast.Call(func=f, args=[a], keywords=[ast.keyword(arg="k", value=b)]))
    add("Call:kwonly", 2, lambda f, a: ast.Call(func=f, args=[], keywords=[ast.keyword(arg="k", value=a)]))
    add("Call:starstar", 3, lambda f, a, b: ast.Call(func=f, args=[], keywords=[ast.keyword(arg="k", value=a), ast.keyword(arg=None, value=b)]))
    add("NamedExpr", 1, lambda a: ast.NamedExpr(target=S("w"), value=a))
    add("Lambda0", 1, lambda a: ast.Lambda(args=args(), body=a))
    add("Lambda:defaults", 3, lambda a, b, c: ast.Lambda(args=args(posonly=["p"], a=["q", "r"], vararg="v", kwonly=["k", "m"],
                                                               kw_defaults=[None, b], kwarg="z", defaults=[a]), body=c))
    add("Lambda:posonly-defaults", 4, lambda a, b, c, d: ast.Lambda(args=args(posonly=["p", "q"], a=["r"], defaults=[a, b, c]), body=d))
    add("Lambda:kwonly", 2, lambda a, b: ast.Lambda(args=args(kwonly=["k"], kw_defaults=[a]), body=b))
    add("ListComp", 3, lambda a, b, c: ast.ListComp(elt=a, generators=[comp(S("i"), b, [c])]))
    add("ListComp:2gen", 4, lambda a, b, c, d: ast.ListComp(elt=a, generators=[comp(S("i"), b), comp(
        ast.Tuple(elts=[S("j"), S("k")], ctx=ast.Store()), c, [d, N("t")])]))
    add("SetComp", 2, lambda a, b: ast.SetComp(elt=a, generators=[comp(S("i"), b)]))
    add("GeneratorExp", 2, lambda a, b: ast.GeneratorExp(elt=a, generators=[comp(S("i"), b)]))
    add("DictComp", 4, lambda a, b, c, d: ast.DictComp(key=a, value=b, generators=[comp(S("i"), c, [d])]))
    add("IfExp", 3, lambda a, b, c: ast.IfExp(test=b, body=a, orelse=c))
    add("Yield", 1, lambda a: ast.Yield(value=a))
    add("Yield0", 0, lambda: ast.Yield(value=None))
    add("YieldFrom", 1, lambda a: ast.YieldFrom(value=a))
    add("Await", 1, lambda a: ast.Await(value=a))
    return T


TEMPLATES = templates()


def leaf(i=0):
    return N("abcdefgh"[i % 8])


def build(tpl, children):
    name, n, f = tpl
    return f(*children)


def depth2():
    """every (parent, slot) x child kind; the other slots hold names"""
    for p in TEMPLATES:
        for slot in range(p[1]):
            for c in TEMPLATES:
                kids = [leaf(i) for i in range(p[1])]
                kids[slot] = build(c, [leaf(4 + j) for j in range(c[1])])
                yield (p[0], slot, c[0]), build(p, kids)


def depth3(rng=None, limit=None):
    """(parent, slot) x (child, slot) x grandchild; all of them, or a sample of `limit` drawn with rng"""
    def one(p, slot, c, cslot, g):
        gk = build(g, [leaf(j) for j in range(g[1])])
        ck = [leaf(4 + j) for j in range(c[1])]
        ck[cslot] = gk
        kids = [leaf(i) for i in range(p[1])]
        kids[slot] = build(c, ck)
        return (p[0], slot, c[0], cslot, g[0]), build(p, kids)
    if limit is None:
        for p in TEMPLATES:
            for slot in range(p[1]):
                for c in TEMPLATES:
                    for cslot in range(c[1]):
                        for g in TEMPLATES:
                            yield one(p, slot, c, cslot, g)
        return
    with_holes = [t for t in TEMPLATES if t[1] > 0]
    for _ in range(limit):
        p = rng.choice(with_holes)
        c = rng.choice(with_holes)
        g = rng.choice(TEMPLATES)
        yield one(p, rng.randrange(p[1]), c, rng.randrange(c[1]), g)


def random_tree(rng, depth):
    if depth <= 0 or rng.random() < 0.15:
        t = rng.choice([t for t in TEMPLATES if t[1] == 0])
        return build(t, [])
    t = rng.choice(TEMPLATES)
    return build(t, [random_tree(rng, depth - 1) for _ in range(t[1])])


def right_edge_tree(rng, depth):
    """deep trees that grow along the right edge (where misplaced parentheses hide)"""
    e = leaf(rng.randrange(8))
    for _ in range(depth):
        t = rng.choice([t for t in TEMPLATES if t[1] > 0])
        kids = [leaf(i) for i in range(t[1])]
        kids[rng.choice([t[1] - 1, t[1] - 1, 0])] = e
        e = build(t, kids)
    return e


def lambda_signatures():
    """every shape of a lambda signature: 0-2 positional-only, 0-2 positional, every count of defaults, *args or a bare *,
    0-2 keyword-only with every pattern of defaults, **kwargs"""
    names = "pqrstuvw"
    for npos in range(3):
        for na in range(3):
            for nd in range(npos + na + 1):
                for va in (None, "va"):
                    for nk in range(3):
                        for mask in itertools.product([False, True], repeat=nk):
                            for kw in (None, "kw"):
                                po = list(names[:npos])
                                ar = list(names[npos:npos + na])
                                ko = ["k%d" % i for i in range(nk)]
                                kd = [K(i) if m else None for i, m in enumerate(mask)]
                                yield ast.Lambda(args=args(posonly=po, a=ar, vararg=va, kwonly=ko, kw_defaults=kd, kwarg=kw,
                                                           defaults=[K(10 + i) for i in range(nd)]), body=N("x"))


LOW_PREC = ("IfExp", "Lambda0", "Lambda:defaults", "NamedExpr", "BoolOp:And", "BoolOp:Or", "Compare:Lt", "Compare:In", "Compare:chain",
            "UnaryOp:Not", "UnaryOp:USub", "BinOp:Pow", "BinOp:Add", "BinOp:BitOr", "Yield", "YieldFrom", "Await", "GeneratorExp",
            "Tuple2", "Tuple:star", "JoinedStr:field", "Subscript:slice", "Call:kw", "Attribute", "Constant:int", "Constant:float")


def depth3_sensitive():
    """every (parent, slot) x (child, slot) x grandchild with child and grandchild drawn from the precedence-sensitive kinds:
    the triples in which a misplaced pair of parentheses can hide"""
    low = [t for t in TEMPLATES if t[0] in LOW_PREC]
    for p in TEMPLATES:
        for slot in range(p[1]):
            for c in low:
                for cslot in range(c[1]):
                    for g in low:
                        gk = build(g, [leaf(j) for j in range(g[1])])
                        ck = [leaf(4 + j) for j in range(c[1])]
                        ck[cslot] = gk
                        kids = [leaf(i) for i in range(p[1])]
                        kids[slot] = build(c, ck)
                        yield (p[0], slot, c[0], cslot, g[0]), build(p, kids)
