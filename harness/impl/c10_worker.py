"""Runs API histories against the real package, one JSON job per line on stdin."""
import json
import random
import sys

sys.setrecursionlimit(100000)
import oneliner
from oneliner.config import Configs
from harness.sexp import canon_ol


def run_history(job):
    progs = job["programs"]
    objs = []
    out = []
    cfg = None
    for act in job["history"]:
        k = act[0]
        try:
            if k == "new":
                objs.append(Configs())
                out.append(None)
            elif k == "set":
                try:
                    setattr(objs[act[1]], act[2], act[3])
                    out.append("ok")
                except ValueError:
                    out.append("ValueError")
            elif k == "convert":
                cfg = None if act[1] is None else objs[act[1]]
                eff = None if cfg is None else [getattr(cfg, n) for n in Configs.config_names]
                text = oneliner.convert_code_string(progs[act[2]], configs=cfg)
                out.append({"eff": eff, "text": canon_ol(text)})
            elif k == "fail":
                # a conversion the converter refuses: the caller catches the error and carries on
                cfg = None if act[1] is None else objs[act[1]]
                try:
                    oneliner.convert_code_string(job["failing"][act[2]], configs=cfg)
                    out.append("converted")
                except Exception as e:
                    out.append("raised:" + type(e).__name__)
            elif k == "drop":
                # the caller forgets an options object: its memory (and id()) may be reused by the next one
                objs[act[1]] = None
                cfg = None            # (the last conversion's local reference)
                import gc
                gc.collect()
                out.append(None)
            elif k == "churn":
                # many short-lived options objects with an option set (a helper that builds its own Configs per call), all
                # forgotten; then as many fresh ones: every fresh object must read the defaults, whatever memory it reuses
                tmp = [Configs() for _ in range(act[3])]
                for t in tmp:
                    setattr(t, act[1], act[2])
                del tmp, t
                import gc
                gc.collect()
                fresh = [Configs() for _ in range(act[3])]
                seen = sorted({tuple(getattr(f, n) for n in Configs.config_names) for f in fresh})
                out.append({"fresh_option_values": [list(x) for x in seen]})
                del fresh
            elif k == "reseed":
                random.seed(act[1])
                out.append(None)
            else:
                out.append("?")
        except Exception as e:  # an unexpected exception is an observable too
            out.append("EXC:" + type(e).__name__ + ":" + str(e)[:200])
    return out


for line in sys.stdin:
    line = line.strip()
    if line:
        print(json.dumps(run_history(json.loads(line))), flush=True)
