"""Runs API histories against the real package, one JSON job per line on stdin."""
import json
import random
import sys

sys.setrecursionlimit(100000)
import oneliner
from oneliner.config import Configs
from harness.sexp import canon_ol


def run_history(job):
    progs = job["programs"]
    objs = []
    out = []
    for act in job["history"]:
        k = act[0]
        try:
            if k == "new":
                objs.append(Configs())
                out.append(None)
            elif k == "set":
                try:
                    setattr(objs[act[1]], act[2], act[3])
                    out.append("ok")
                except ValueError:
                    out.append("ValueError")
            elif k == "convert":
                cfg = None if act[1] is None else objs[act[1]]
                eff = None if cfg is None else [getattr(cfg, n) for n in Configs.config_names]
                text = oneliner.convert_code_string(progs[act[2]], configs=cfg)
                out.append({"eff": eff, "text": canon_ol(text)})
            elif k == "reseed":
                random.seed(act[1])
                out.append(None)
            else:
                out.append("?")
        except Exception as e:  # an unexpected exception is an observable too
            out.append("EXC:" + type(e).__name__ + ":" + str(e)[:200])
    return out


for line in sys.stdin:
    line = line.strip()
    if line:
        print(json.dumps(run_history(json.loads(line))), flush=True)
