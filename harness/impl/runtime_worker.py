"""Runs under any installed interpreter (3.8+): stdin = JSON {"pairs": [[source, text], ...]}; for each pair exec(source)
and eval(text) in fresh namespaces on THIS interpreter and compare stdout, user globals and exception type."""
import json
import sys
import warnings

warnings.simplefilter("ignore")
sys.path[:0] = ["/verif"]
from harness import diffexec  # noqa: E402


_DUP = None


def _collapse_bool(res):
    """CPython 3.8/3.9 decide by CONTEXT how often the same object is truth-tested in a nested and/or expression
    (`(a and b) and c` as an assignment value tests a once, as a call argument twice): consecutive truth tests of one
    object are one observation on those runtimes."""
    import re
    global _DUP
    if _DUP is None:
        _DUP = re.compile(r"(tuple\('bool',(-?\d+)\))(?:,\1)+")
    g = res["globals"]
    if "LOG" in g and isinstance(g["LOG"], str):
        g["LOG"] = _DUP.sub(r"\1", g["LOG"])
    return res


def one(pair):
    src, text = pair
    sys.setrecursionlimit(20000)
    try:
        compile(src, "<src>", "exec")
    except SyntaxError as e:
        return ["source-syntax", str(e)[:100]]
    except (MemoryError, RecursionError, ValueError) as e:
        return ["source-syntax", type(e).__name__]          # the script itself is beyond this interpreter's parser limits
    try:
        compile(text, "<conv>", "eval")
    except (SyntaxError, ValueError, MemoryError) as e:
        # MemoryError: the parser stack of CPython 3.8 overflows at about 100 nested brackets
        return ["text-syntax", (type(e).__name__ + ": " + str(e))[:160]]
    except RecursionError:
        return ["compile-recursion", ""]
    a, b = diffexec.run_pair(src, text)
    if sys.version_info < (3, 10):
        a, b = _collapse_bool(a), _collapse_bool(b)
    if a["exc"] is not None:
        return ["source-raises", a["exc"][:100]]
    if a == b:
        return ["same", ""]
    d = []
    if a["stdout"] != b["stdout"]:
        d.append("stdout %r vs %r" % (a["stdout"][:160], b["stdout"][:160]))
    if a["exc"] != b["exc"]:
        d.append("exception %s vs %s" % (a["exc"], b["exc"]))
    for k in sorted(set(a["globals"]) | set(b["globals"])):
        if a["globals"].get(k) != b["globals"].get(k):
            d.append("global %s: %s vs %s" % (k, a["globals"].get(k), b["globals"].get(k)))
    return ["differs", "; ".join(d)[:500]]


def main():
    job = json.load(sys.stdin)
    res = diffexec.pool().map(one, job["pairs"], chunksize=8)
    json.dump({"version": list(sys.version_info[:3]), "results": res}, sys.stdout)


if __name__ == "__main__":
    main()
