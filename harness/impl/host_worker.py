"""Runs under any installed interpreter: stdin = JSON {"sources": [...], "triples": [...]}, stdout = JSON results of
diffexec.run_many (conversion, compile, exec vs eval) on THIS interpreter."""
import json
import sys
import warnings

warnings.simplefilter("ignore")
sys.path[:0] = ["/repo", "/verif"]
from harness import diffexec  # noqa: E402


def main():
    job = json.load(sys.stdin)
    triples = [tuple(t) for t in job["triples"]]
    res = diffexec.run_many(job["sources"], triples, need_clean=job.get("need_clean", True))
    json.dump({"version": list(sys.version_info[:3]), "results": res}, sys.stdout)


if __name__ == "__main__":
    main()
