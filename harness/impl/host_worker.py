"""Runs under any installed interpreter: stdin = JSON {"sources": [...], "triples": [...]}, stdout = JSON results of
diffexec.run_many (conversion, compile, exec vs eval) on THIS interpreter."""
import json
import sys
import warnings

warnings.simplefilter("ignore")
sys.path[:0] = ["/repo", "/verif"]
from harness import diffexec  # noqa: E402


def _convert_row(job):
    src, triples = job
    sys.setrecursionlimit(20000)
    row = []
    for tr in triples:
        try:
            row.append(["ok", diffexec.convert(src, tr)])
        except RecursionError:
            row.append(["err", "RecursionError"])
        except Exception as e:
            row.append(["err", type(e).__name__ + ": " + str(e)[:100]])
    return row


def _pair_obs(job):
    """what the script does and what its conversion does on THIS interpreter: [source observation, converted observation]"""
    src, tr = job
    sys.setrecursionlimit(20000)
    try:
        text = diffexec.convert(src, tuple(tr)) if tr is not None else "None"
        a, b = diffexec.run_pair(src, text)
        return [a, b if tr is not None else None]
    except BaseException as e:  # noqa
        return [None, type(e).__name__]


def main():
    job = json.load(sys.stdin)
    if job.get("mode") == "pair-observe":
        out = diffexec.pool().map(_pair_obs, [(s, t) for s, t in job["jobs"]], chunksize=4)
        json.dump({"version": list(sys.version_info[:3]), "results": out}, sys.stdout)
        return
    triples = [tuple(t) for t in job["triples"]]
    if job.get("mode") == "convert":
        out = diffexec.pool().map(_convert_row, [(src, triples) for src in job["sources"]], chunksize=4)
        json.dump({"version": list(sys.version_info[:3]), "results": out}, sys.stdout)
        return
    res = diffexec.run_many(job["sources"], triples, need_clean=job.get("need_clean", True))
    json.dump({"version": list(sys.version_info[:3]), "results": res}, sys.stdout)


if __name__ == "__main__":
    main()
