"""Differential execution: exec(source) versus eval(converted text), in fresh namespaces.

Used as the *direct oracle* of several properties (what the property itself observes on the real code)
and to validate the semantic models against CPython.  Work is done in worker processes with a per-case
alarm, so that a broken converter (e.g. a `break` that no longer breaks) cannot hang a check.
"""
import contextlib
import io
import multiprocessing as mp
import os
import signal
import sys
import types

ALL_CONFIGS = [(u, w, s) for u in ("oneliner", "ast.unparse") for w in ("list", "chain_call")
               for s in ("if_expr", "short_circuit")]


class Timeout(Exception):
    pass


def _alarm(signum, frame):
    raise Timeout()


def make_cfg(triple):
    from oneliner.config import Configs
    c = Configs()
    c.unparser, c.expr_wrapper, c.if_style = triple
    return c


def convert(src, triple):
    import oneliner
    return oneliner.convert_code_string(src, configs=make_cfg(triple))


def _canon(v, depth=0):
    """A comparable, address-free rendering of a value."""
    if depth > 6:
        return "<deep>"
    if isinstance(v, (int, float, complex, str, bytes, bool, type(None), type(Ellipsis))):
        return repr(v)
    if isinstance(v, (list, tuple, set, frozenset)):
        items = [_canon(x, depth + 1) for x in v]
        if isinstance(v, (set, frozenset)):
            items.sort()
        return type(v).__name__ + "(" + ",".join(items) + ")"
    if isinstance(v, dict):
        return "dict(" + ",".join(f"{_canon(k, depth + 1)}:{_canon(x, depth + 1)}" for k, x in v.items()) + ")"
    if isinstance(v, types.ModuleType):
        return f"<module {v.__name__}>"
    if isinstance(v, type):
        return f"<class {v.__name__}>"
    if callable(v):
        return "<callable>"
    if hasattr(v, "__dict__") and type(v).__module__ in ("__main__", "builtins", None) or type(v).__repr__ is object.__repr__:
        try:
            return f"<{type(v).__name__} " + _canon(vars(v), depth + 1) + ">"
        except TypeError:
            return f"<{type(v).__name__}>"
    try:
        return repr(v)
    except Exception:
        return f"<{type(v).__name__}>"


def _noaddr(s):
    """object addresses and generated function names are not behaviour"""
    import re
    s = re.sub(r" at 0x[0-9a-fA-F]+", " at 0x?", s)
    s = re.sub(r"<function \S+ at 0x\?>", "<function>", s)
    s = re.sub(r"<function [^>]*?( at 0x\?)?>", "<function>", s)
    # qualified names are metadata (a function is a lambda, a class body a lambda in the converted program)
    s = re.sub(r"<generator object \S+ at 0x\?>", "<generator object>", s)
    s = re.sub(r"<(?:[\w<>]+\.)+(\w+) object", r"<\1 object", s)
    s = re.sub(r"<class '(?:[\w<>]+\.)+(\w+)'>", r"<class '\1'>", s)
    return s


HELPER_OK = ("__ol_", "itertools", "importlib", "__builtins__")


def observe(globs, extra_skip=()):
    out = {}
    for k, v in globs.items():
        if k.startswith("__ol_") or k in ("itertools", "importlib", "__builtins__", "_", "__annotations__") or k in extra_skip:
            continue
        out[k] = _canon(v)
    return out


def run_pair(src, text, seconds=5, env_factory=None):
    """Returns (result_src, result_conv); a result is dict(stdout, globals, exc).
    The script and the converted text each run in their OWN forked child of this process: neither sees what the other left
    behind in the interpreter (modules it imported, monkey patches), and a program on which the INTERPRETER itself dies
    (CPython 3.13.0 segfaults on some comprehension / class-body scripts) is reported as an exception of that program instead
    of taking a pool worker - and with it the whole check - down."""
    import json

    def child(which):
        r, w = os.pipe()
        pid = os.fork()
        if pid == 0:
            code = 1
            try:
                os.close(r)
                with os.fdopen(w, "w") as out:
                    res = _run_pair_here(src, text, seconds, env_factory, only=which)
                    out.write(json.dumps(res) + "\n")
                    out.flush()
                code = 0
            finally:
                os._exit(code)
        os.close(w)
        with os.fdopen(r) as inp:
            data = inp.read()
        _, status = os.waitpid(pid, 0)
        line = data.split("\n")[0] if data else ""
        try:
            return json.loads(line)
        except ValueError:
            how = f"signal {os.WTERMSIG(status)}" if os.WIFSIGNALED(status) else f"exit status {os.WEXITSTATUS(status)}"
            return {"stdout": "", "globals": {}, "exc": "INTERPRETER-CRASH: " + how}
    return child(False), child(True)


def _run_pair_here(src, text, seconds=5, env_factory=None, only=None):
    """only=False: just the script, only=True: just the converted text (returns one result)"""
    res = []
    for mode, code in (("exec", src), ("eval", text)):
        if only is not None and only != (mode == "eval"):
            continue
        g = {"__name__": "__main__"}
        if env_factory is not None:
            g.update(env_factory())
        buf = io.StringIO()
        exc = None
        signal.signal(signal.SIGALRM, _alarm)
        signal.setitimer(signal.ITIMER_REAL, seconds)
        try:
            with contextlib.redirect_stdout(buf):
                if mode == "exec":
                    exec(compile(code, "<src>", "exec"), g)
                else:
                    eval(compile(code, "<conv>", "eval"), g)
        except Timeout:
            exc = "Timeout"
        except RecursionError:
            exc = "RecursionError"
        except BaseException as e:  # noqa
            exc = type(e).__name__ + ": " + str(e)[:120]
        finally:
            signal.setitimer(signal.ITIMER_REAL, 0)
        skip = tuple(env_factory().keys()) if env_factory is not None else ()
        res.append({"stdout": _noaddr(buf.getvalue()), "globals": {k: _noaddr(v) for k, v in observe(g, skip).items()},
                    "exc": exc})
    return res[0] if only is not None else res


def _work(job):
    """job = (src, [triples]); returns list of (triple, status, detail)."""
    sys.setrecursionlimit(20000)
    src, triples, need_clean = job
    out = []
    for tr in triples:
        try:
            text = convert(src, tr)
        except RecursionError:
            out.append((tr, "convert-recursion", ""))
            continue
        except Exception as e:
            out.append((tr, "convert-error", type(e).__name__ + ": " + str(e)[:150]))
            continue
        if "\n" in text:
            out.append((tr, "newline", text[:200]))
            continue
        try:
            compile(text, "<conv>", "eval")
        except (SyntaxError, ValueError) as e:
            out.append((tr, "not-an-expression", f"{type(e).__name__}: {e}; text={text[:300]}"))
            continue
        except RecursionError:
            out.append((tr, "compile-recursion", ""))
            continue
        a, b = run_pair(src, text)
        if a["exc"] is not None:
            out.append((tr, "source-raises", a["exc"]))
            if need_clean:
                continue
        if a == b:
            out.append((tr, "same", ""))
        else:
            d = []
            if a["stdout"] != b["stdout"]:
                d.append(f"stdout {a['stdout'][:200]!r} vs {b['stdout'][:200]!r}")
            if a["exc"] != b["exc"]:
                d.append(f"exception {a['exc']} vs {b['exc']}")
            for k in sorted(set(a["globals"]) | set(b["globals"])):
                if a["globals"].get(k) != b["globals"].get(k):
                    d.append(f"global {k}: {a['globals'].get(k)} vs {b['globals'].get(k)}")
            out.append((tr, "differs", "; ".join(d)[:600] + " || text=" + text[:400]))
    return out


_POOL = None


def pool():
    global _POOL
    if _POOL is None:
        ctx = mp.get_context("fork")
        _POOL = ctx.Pool(min(16, os.cpu_count() or 4))
    return _POOL


def run_many(sources, triples=ALL_CONFIGS, need_clean=True):
    """For every source: convert under every configuration, compile, run both, compare."""
    jobs = [(s, list(triples), need_clean) for s in sources]
    return pool().map(_work, jobs, chunksize=4)
