"""Input corpora shared by several checks."""
import ast
import os
import random
import sys

STDLIB = os.path.dirname(os.__file__)


def stdlib_files(limit=None, seed=0):
    files = []
    for root, dirs, fns in os.walk(STDLIB):
        dirs[:] = [d for d in dirs if d not in ("site-packages", "__pycache__", "test", "tests", "idlelib", "lib2to3")]
        for fn in fns:
            if fn.endswith(".py"):
                files.append(os.path.join(root, fn))
    files.sort()
    if limit is not None and limit < len(files):
        random.Random(seed).shuffle(files)
        files = sorted(files[:limit])
    return files


def top_expressions(tree):
    """Maximal expression subtrees of a module (expressions not nested inside another expression)."""
    out = []
    stack = [tree]
    while stack:
        n = stack.pop()
        for ch in ast.iter_child_nodes(n):
            if isinstance(ch, ast.expr):
                out.append(ch)
            else:
                stack.append(ch)
    return out


def stdlib_expressions(limit_files=None, seed=0):
    for fn in stdlib_files(limit_files, seed):
        try:
            src = open(fn, encoding="utf8").read()
            tree = ast.parse(src)
        except Exception:
            continue
        for e in top_expressions(tree):
            yield fn, e
