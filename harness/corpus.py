"""Input corpora shared by several checks."""
import ast
import os
import random
import sys

STDLIB = os.path.dirname(os.__file__)


def stdlib_files(limit=None, seed=0):
    files = []
    for root, dirs, fns in os.walk(STDLIB):
        dirs[:] = [d for d in dirs if d not in ("site-packages", "__pycache__", "test", "tests", "idlelib", "lib2to3")]
        for fn in fns:
            if fn.endswith(".py"):
                files.append(os.path.join(root, fn))
    files.sort()
    if limit is not None and limit < len(files):
        random.Random(seed).shuffle(files)
        files = sorted(files[:limit])
    return files


def top_expressions(tree):
    """Maximal expression subtrees of a module (expressions not nested inside another expression)."""
    out = []
    stack = [tree]
    while stack:
        n = stack.pop()
        for ch in ast.iter_child_nodes(n):
            if isinstance(ch, ast.expr):
                out.append(ch)
            else:
                stack.append(ch)
    return out


def stdlib_expressions(limit_files=None, seed=0):
    for fn in stdlib_files(limit_files, seed):
        try:
            src = open(fn, encoding="utf8").read()
            tree = ast.parse(src)
        except Exception:
            continue
        for e in top_expressions(tree):
            yield fn, e


SUPPORTED_STMTS = (ast.Expr, ast.If, ast.While, ast.For, ast.Break, ast.Continue, ast.Pass, ast.Assign,
                   ast.AnnAssign, ast.AugAssign, ast.FunctionDef, ast.Return, ast.Global, ast.Nonlocal,
                   ast.ClassDef, ast.Import, ast.ImportFrom)


class _Strip(ast.NodeTransformer):
    """Replace every statement the converter does not support by `pass` (keeps the module valid)."""

    def generic_visit(self, node):
        node = super().generic_visit(node)
        return node

    def visit(self, node):
        if isinstance(node, ast.stmt) and not isinstance(node, SUPPORTED_STMTS):
            return ast.copy_location(ast.Pass(), node)
        if isinstance(node, ast.ImportFrom) and any(a.name == "*" for a in node.names):
            return ast.copy_location(ast.Pass(), node)
        return super().visit(node)


def stripped_stdlib_sources(limit_files=None, seed=0, max_bytes=60000):
    """Standard-library modules with unsupported statements replaced by `pass`, re-rendered as source."""
    for fn in stdlib_files(limit_files, seed):
        try:
            src = open(fn, encoding="utf8").read()
            if len(src) > max_bytes:
                continue
            tree = ast.parse(src)
            tree = ast.fix_missing_locations(_Strip().visit(tree))
            out = ast.unparse(tree)
            ast.parse(out)
        except Exception:
            continue
        yield fn, out
