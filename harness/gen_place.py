"""Placement families: the same construct (a function definition with defaults and decorators, a class statement with
bases / metaclass / keywords / decorators) placed at module level, in a function (names being locals, parameters, captured
variables), in a class body (names being class members), and nested two deep - so that the names its header mentions are
resolved in every kind of DEFINING scope.  Every script prints what it computes."""
import itertools


def _ind(s, n=1):
    return "\n".join(("    " * n + l if l else l) for l in s.split("\n"))


# ---------------------------------------------------------------------------------------------------------------
# functions: where the header's names (defaults, decorators) live

SIGS = [
    # (parameter list using the names A and B in defaults, call suffixes)
    ("x, y=A", ["(1)", "(1, 2)"]),
    ("x=A, *, k=B", ["()", "(5)", "(k=6)", "(5, k=6)"]),
    ("x, /, y=A, *rest, k=B, **kw", ["(1)", "(1, 2, 3, k=4, z=5)"]),
    ("*, k=A + B", ["()", "(k=0)"]),
    ("x=[A, B]", ["()"]),
    ("x=(lambda: A)(), y=B if A else 0", ["()"]),
]


def function_placements():
    """(label, script)"""
    out = []
    for si, (params, calls) in enumerate(SIGS):
        import ast
        a = ast.parse(f"def f({params}): pass").body[0].args
        names = [x.arg for x in a.posonlyargs + a.args] + ([a.vararg.arg] if a.vararg else []) + \
                [x.arg for x in a.kwonlyargs] + ([a.kwarg.arg] if a.kwarg else [])
        ret = "(" + ", ".join(names) + ",)"
        show = "\n".join(f"print('{c}', F{c})" for c in calls)

        def d(head="def f"):
            return f"{head}({params}):\n    return {ret}"
        # module level: A, B globals
        out.append((f"sig{si}:module", f"A = 10\nB = 20\n{d()}\nF = f\nA = 11\n{show}\n"))
        # in a function: locals
        out.append((f"sig{si}:local", f"A = 'gA'\nB = 'gB'\ndef outer():\n    A = 10\n    B = 20\n{_ind(d())}\n    A = 11\n    return f\nF = outer()\n{show}\n"))
        # parameters of the enclosing function
        out.append((f"sig{si}:param", f"A = 'gA'\nB = 'gB'\ndef outer(A, B=20):\n{_ind(d())}\n    return f\nF = outer(10)\n{show}\n"))
        # captured by a sibling closure (the names live in the enclosing function's cell / dictionary)
        out.append((f"sig{si}:captured", f"A = 'gA'\nB = 'gB'\ndef outer(A):\n    B = 20\n    def peek():\n        return A, B\n{_ind(d())}\n    B = 21\n    return f, peek\nF, P = outer(10)\n{show}\nprint(P())\n"))
        # captured by the function itself (its body reads the same names)
        out.append((f"sig{si}:selfcaptured", f"def outer(A, B):\n    def f({params}):\n        return {ret}, A, B\n    A = 'late'\n    return f\nF = outer(10, 20)\n{show}\n"))
        # the default names a parameter of the function being defined (def f(n=n))
        out.append((f"sig{si}:shadow", f"def outer(x, k):\n    A = x\n    B = k\n    def f({params}):\n        return {ret}\n    return f\nF = outer(10, 20)\n{show}\n"))
        # class body: members
        out.append((f"sig{si}:class", f"A = 'gA'\nB = 'gB'\nclass K:\n    A = 10\n    B = 20\n    def f({('self, ' + params) if not params.startswith('*') else 'self, ' + params}):\n        return {ret}\n    A = 11\nF = K().f\n{show}\n"))
        # class in a function: member and enclosing local
        out.append((f"sig{si}:class-in-function", f"A = 'gA'\nB = 'gB'\ndef outer():\n    B = 20\n    class K:\n        A = 10\n        def f(self, {params}):\n            return {ret}\n    return K\nF = outer()().f\n{show}\n"))
        # two deep
        out.append((f"sig{si}:deep", f"def o1(A):\n    def o2(B):\n{_ind(d(), 2)}\n        return f\n    return o2\nF = o1(10)(20)\n{show}\n"))
        # global declaration in the defining function
        out.append((f"sig{si}:declared-global", f"A = 10\nB = 20\ndef outer():\n    global A\n    B = 21\n{_ind(d())}\n    A = 12\n    return f\nF = outer()\n{show}\nprint(A)\n"))
        # lambda with defaults in a function
        if "**" not in params:
            out.append((f"sig{si}:lambda-local", f"def outer(A):\n    B = 20\n    return lambda {params}: {ret}\nF = outer(10)\n{show}\n"))
    # which `return` a call executes: guard clauses with a bare return, returns inside loops and branches, falling off the end
    RET = {
        "guard-bare": "def f(x):\n    if not x:\n        return\n    return x * 2\n",
        "bare-in-loop": "def f(x):\n    for i in range(3):\n        if i == x:\n            return\n    return 'end'\n",
        "bare-in-while": "def f(x):\n    n = 0\n    while n < 3:\n        n += 1\n        if n == x:\n            return\n    return n\n",
        "valued-then-fall": "def f(x):\n    if x:\n        return x\n    x = 'fell'\n",
        "nested-branches": "def f(x):\n    if x > 1:\n        if x > 2:\n            return 'big'\n        else:\n            return\n    elif x == 1:\n        return 1\n    return 'small'\n",
        "return-none-explicit": "def f(x):\n    if x:\n        return None\n    return 0\n",
        "only-bare": "def f(x):\n    if x:\n        return\n    return\n",
        "return-in-else-of-loop": "def f(x):\n    for i in range(x):\n        pass\n    else:\n        return ('else', x)\n    return 'never'\n",
    }
    for k, body in RET.items():
        calls = "print([f(v) for v in (0, 1, 2, 3)])\n"
        out.append((f"ret:{k}:module", body + calls))
        out.append((f"ret:{k}:method", "class K:\n" + _ind(body.replace("def f(x)", "def f(self, x)")) + "\nprint([K().f(v) for v in (0, 1, 2, 3)])\n"))
        out.append((f"ret:{k}:nested", "def outer():\n" + _ind(body) + "\n    return f\nf = outer()\n" + calls))
    # decorators naming locals / parameters / members
    deco = "def deco(tag):\n    def w(fn):\n        def g(*a, **k):\n            return (tag, fn(*a, **k))\n        return g\n    return w\n"
    out.append(("deco:local", deco + "def outer():\n    t = 'loc'\n    mk = deco\n    @mk(t)\n    @mk(t + '2')\n    def f(x=t):\n        return x\n    t = 'late'\n    return f\nprint(outer()())\n"))
    out.append(("deco:param-captured", deco + "def outer(t, mk):\n    def peek():\n        return t\n    @mk(t)\n    def f(x=t):\n        return x\n    return f, peek\nf, p = outer('par', deco)\nprint(f(), p())\n"))
    out.append(("deco:class-member", deco + "class K:\n    t = 'mem'\n    mk = staticmethod(deco)\n    @deco(t)\n    def f(self, x=t):\n        return x\nprint(K().f())\n"))
    # a decorator written as a BARE NAME that is a class member / a local shared with a nested def / shadows a global
    out.append(("deco:bare-class-member", deco + "def tag(f):\n    return lambda *a: ('global', f(*a))\nclass K:\n    def tag(f):\n        return lambda *a: ('member', f(*a))\n    tag2 = deco('m')\n    @tag\n    @tag2\n    def f(self=None, x=1):\n        return x\nprint(K.f())\n"))
    out.append(("deco:bare-captured-local", deco + "def outer():\n    log = deco('loc')\n    def peek():\n        return log\n    @log\n    def f(x=2):\n        return x\n    return f(), peek() is log\nprint(outer())\n"))
    out.append(("deco:bare-shadowed-global", deco + "mark = deco('glob')\ndef outer(mark):\n    def inner():\n        global mark\n        @mark\n        def f():\n            return 3\n        return f()\n    return inner()\nprint(outer(None))\n"))
    out.append(("deco:class-in-function", deco + "def outer(t):\n    class K:\n        u = t + '!'\n        @deco(u)\n        def f(self, x=u, y=t):\n            return x, y\n    return K\nprint(outer('z')().f())\n"))
    return out


# ---------------------------------------------------------------------------------------------------------------
# classes: where the names of the class header (bases, metaclass, keywords, decorators) live

CLASS_PRELUDE = '''
class Meta(type):
    def __new__(mcs, name, bases, ns, **kw):
        ns['kws'] = sorted(kw.items())
        return super().__new__(mcs, name, bases, ns)
    def __init__(cls, name, bases, ns, **kw):
        super().__init__(name, bases, ns)
class Root:
    tag = 'root'
    def who(self):
        return 'Root.who'
class Other:
    tag = 'other'
def mark(label):
    def w(c):
        c.marks = getattr(c, 'marks', ()) + (label,)
        return c
    return w
def desc(c):
    return (c.__name__, [b.__name__ for b in c.__mro__], getattr(c, 'tag', None), getattr(c, 'kws', None), getattr(c, 'marks', None),
            type(c).__name__)
'''

HEADERS = [
    "(B)",
    "(B, Other)",
    "(B, metaclass=M)",
    "(B, metaclass=M, flag=V)",
    "(*[B])",
    "(B if V else Other)",
]


def class_placements():
    out = []
    for hi, header in enumerate(HEADERS):
        cls = f"class X{header}:\n    own = 1\n    def who(self):\n        return ('X', super().who())"
        # module level
        out.append((f"hdr{hi}:module", CLASS_PRELUDE + f"B = Root\nM = Meta\nV = 1\n{cls}\nprint(desc(X), X().who())\n"))
        # locals of a function
        out.append((f"hdr{hi}:local", CLASS_PRELUDE + f"B = Other\ndef make():\n    B = Root\n    M = Meta\n    V = 2\n{_ind(cls)}\n    return X\nX = make()\nprint(desc(X), X().who())\n"))
        # parameters (class factory / mixin)
        out.append((f"hdr{hi}:param", CLASS_PRELUDE + f"def make(B, M=Meta, V=3):\n{_ind(cls)}\n    return X\nX = make(Root)\nprint(desc(X), X().who())\n"))
        # a local class as base
        out.append((f"hdr{hi}:local-class", CLASS_PRELUDE + f"def make():\n    class B(Root):\n        tag = 'localbase'\n    M = Meta\n    V = 4\n{_ind(cls)}\n    return X\nX = make()\nprint(desc(X), X().who())\n"))
        # names captured by a closure of the enclosing function
        out.append((f"hdr{hi}:captured", CLASS_PRELUDE + f"def make(B):\n    M = Meta\n    V = 5\n    def peek():\n        return B.__name__, V\n{_ind(cls)}\n    return X, peek\nX, p = make(Root)\nprint(desc(X), X().who(), p())\n"))
        # sibling members of an enclosing class
        out.append((f"hdr{hi}:sibling", CLASS_PRELUDE + f"class Outer:\n    class B(Root):\n        tag = 'sibling'\n    M = Meta\n    V = 6\n{_ind(cls)}\nX = Outer.X\nprint(desc(X), X().who())\n"))
        # class nested in a class nested in a function
        out.append((f"hdr{hi}:deep", CLASS_PRELUDE + f"def make(V):\n    class Outer:\n        B = Root\n        M = Meta\n{_ind(cls, 2)}\n    return Outer.X\nX = make(7)\nprint(desc(X), X().who())\n"))
    # decorators of a class naming locals / members
    out.append(("cdeco:local", CLASS_PRELUDE + "def make(label):\n    m = mark\n    @m(label)\n    @m(label + '2')\n    class X(Root):\n        pass\n    return X\nprint(desc(make('L')))\n"))
    out.append(("cdeco:member", CLASS_PRELUDE + "class Outer:\n    lab = 'mem'\n    @mark(lab)\n    class X(Root):\n        pass\nprint(desc(Outer.X))\n"))
    # the body reads the same name as the base (then the class table knows it as free)
    out.append(("base-also-read-in-body", CLASS_PRELUDE + "def make(B):\n    class X(B):\n        parent = B.__name__\n    return X\nX = make(Root)\nprint(desc(X), X.parent)\n"))
    # a method defined under control flow in a local class using super() and an enclosing local after it
    out.append(("method-super-then-local", CLASS_PRELUDE + "def make(B, suffix):\n    class X(B):\n        def who(self):\n            return (super().who(), suffix, X.__name__)\n    return X\nprint(make(Root, '!')().who())\n"))
    return out
