"""Tokens of Parse.v from real source text (CPython's tokenizer), and the Python mirror of Parse.core."""
import ast
import io
import keyword
import tokenize

from harness import sexp

KEYWORD_TOKENS = {"lambda", "if", "else", "not", "and", "or", "in", "is", "for", "await", "yield", "from", "async"}


class NotTokenisable(Exception):
    pass


def tokens(text):
    """list of sexp strings: (N 'name) | (L const) | (K (bytes))"""
    out = []
    prev_string = False
    for tok in tokenize.generate_tokens(io.StringIO(text).readline):
        tp, s = tok.type, tok.string
        if tp in (tokenize.NEWLINE, tokenize.NL, tokenize.ENDMARKER, tokenize.INDENT, tokenize.DEDENT, tokenize.COMMENT):
            continue
        if tp == tokenize.NAME:
            if s in ("True", "False", "None"):
                out.append(f"(L {sexp.const({'True': True, 'False': False, 'None': None}[s])})")
            elif s in KEYWORD_TOKENS:
                out.append(f"(K {sexp.cps(s)})")
            elif keyword.iskeyword(s):
                raise NotTokenisable(s)
            else:
                out.append(f"(N {sexp.ident(s)})")
            prev_string = False
        elif tp == tokenize.NUMBER:
            out.append(f"(L {sexp.const(ast.literal_eval(s))})")
            prev_string = False
        elif tp == tokenize.STRING:
            if prev_string or s.lstrip("rRbBuU")[:0] != "" or s[0] in "fF" or s[:2].lower() in ("rf", "fr"):
                raise NotTokenisable("adjacent or formatted string")
            out.append(f"(L {sexp.const(ast.literal_eval(s))})")
            prev_string = True
        elif tp == tokenize.OP:
            if s == "...":
                out.append(f"(L {sexp.const(Ellipsis)})")
            else:
                out.append(f"(K {sexp.cps(s)})")
            prev_string = False
        else:
            raise NotTokenisable(tokenize.tok_name.get(tp, str(tp)))
    return out


def _gens_py(e):
    def target(x):
        return isinstance(x, ast.Name) or (isinstance(x, (ast.Tuple, ast.List)) and all(isinstance(y, ast.Name) for y in x.elts))
    c = lambda x: core_py(x) and not isinstance(x, ast.Starred)
    return len(e.generators) >= 1 and all(target(g.target) and core_py(g.target) and c(g.iter) and all(c(i) for i in g.ifs)
                                          and not g.is_async for g in e.generators)


def gen_core_py(e):
    """mirror of Parse.gen_core: a generator expression whose parts are in the core"""
    return isinstance(e, ast.GeneratorExp) and core_py(e.elt) and not isinstance(e.elt, ast.Starred) and _gens_py(e)


def core_top_py(e):
    """mirror of Parse.core_top: what the round-trip theorem covers as a whole expression"""
    return (core_py(e) and not isinstance(e, ast.Starred)) or gen_core_py(e)


def core_py(e, elem=False):
    """mirror of Parse.core (kept in sync by hand; the model's own answer is what counts: see core-check).
    elem: e is an element of a display / a positional argument (a starred expression is allowed there)"""
    t = type(e).__name__
    c = lambda x: core_py(x) and not isinstance(x, ast.Starred)
    el = lambda x: core_py(x, True)
    if t == "Name":
        return True
    if t == "Constant":
        # a literal that is one token: no negative numbers, no complex number with a real part (Parse.lit_ok)
        v = e.value
        if isinstance(v, bool) or not isinstance(v, (int, float, complex)):
            return True
        if isinstance(v, complex):
            return v.real == 0 and not repr(v).startswith(("-", "("))
        return not repr(v).startswith("-")
    if t == "Starred":
        return elem and c(e.value)
    if t == "BinOp":
        return c(e.left) and c(e.right)
    if t == "UnaryOp":
        return c(e.operand)
    if t == "BoolOp":
        return len(e.values) >= 2 and all(c(v) for v in e.values)
    if t == "Compare":
        return c(e.left) and len(e.ops) == len(e.comparators) >= 1 and all(c(v) for v in e.comparators)
    if t == "IfExp":
        return c(e.test) and c(e.body) and c(e.orelse)
    if t == "Lambda":
        a = e.args
        return (c(e.body) and len(a.defaults) <= len(a.posonlyargs) + len(a.args) and len(a.kw_defaults) == len(a.kwonlyargs)
                and all(c(d) for d in a.defaults) and all(d is None or c(d) for d in a.kw_defaults))
    if t == "NamedExpr":
        return isinstance(e.target, ast.Name) and c(e.value)
    if t == "Attribute":
        return c(e.value)
    if t == "Call":
        if len(e.args) == 1 and not e.keywords and isinstance(e.args[0], ast.GeneratorExp):
            return c(e.func) and gen_core_py(e.args[0])          # f(x for x in y)
        return c(e.func) and all(el(a) for a in e.args) and all(c(k.value) for k in e.keywords)
    if t == "Subscript":
        sl_ok = lambda sl: all(x is None or c(x) for x in (sl.lower, sl.upper, sl.step))
        if isinstance(e.slice, ast.Slice):
            return c(e.value) and sl_ok(e.slice)
        if isinstance(e.slice, ast.Tuple) and any(isinstance(x, ast.Slice) for x in e.slice.elts):
            # an index tuple with a slice among its items: a[1:2, k]
            return c(e.value) and all(sl_ok(x) if isinstance(x, ast.Slice) else c(x) for x in e.slice.elts)
        return c(e.value) and c(e.slice)
    if t in ("List", "Tuple"):
        return all(el(x) for x in e.elts)
    if t == "Set":
        return len(e.elts) >= 1 and all(el(x) for x in e.elts)
    if t == "Dict":
        return len(e.keys) == len(e.values) and all(k is None or c(k) for k in e.keys) and all(c(v) for v in e.values)
    if t in ("ListComp", "SetComp", "DictComp"):
        def target(x):
            return isinstance(x, ast.Name) or (isinstance(x, (ast.Tuple, ast.List)) and all(isinstance(y, ast.Name) for y in x.elts))
        gens = len(e.generators) >= 1 and all(target(g.target) and c(g.iter) and all(c(i) for i in g.ifs) and not g.is_async
                                               for g in e.generators)
        heads = (c(e.key) and c(e.value)) if t == "DictComp" else c(e.elt)
        return gens and heads
    return False
