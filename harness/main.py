import argparse
import importlib
import os
import sys
import traceback

sys.setrecursionlimit(200000)
from harness import common


def main():
    ap = argparse.ArgumentParser()
    ap.add_argument("prop")
    ap.add_argument("--tier", default=os.environ.get("VERIF_TIER", "quick"), choices=["quick", "thorough"])
    ap.add_argument("--replay")
    args = ap.parse_args()
    seed = int(os.environ.get("VERIF_SEED", "0") or 0)
    prop = args.prop.upper()
    chk = common.Check(prop, args.tier, seed)
    try:
        mod = importlib.import_module(f"harness.props.{prop.lower()}")
        build = common.ensure_built()
        if not build.binary_ok:
            chk.add_broken("build", "the extracted model binary could not be built", build.make_log[-3000:])
        mod.run(chk, build, replay=args.replay)
    except Exception:
        chk.add_broken("harness", "the check itself crashed", traceback.format_exc())
    sys.exit(chk.finish())


if __name__ == "__main__":
    main()
