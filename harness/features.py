"""Hand-written scripts of the supported fragment, each mixing several features (C01).  Every script prints what it
computes and leaves its results in module globals."""

PROGRAMS = {
    "closures_counter": '''
def make_counter(start=0, step=1):
    count = start
    def inc(times=1):
        nonlocal count
        for _i in range(times):
            count += step
        return count
    def peek():
        return count
    return inc, peek
inc, peek = make_counter(10, 5)
r1 = inc()
r2 = inc(3)
r3 = peek()
print(r1, r2, r3)
''',
    "params_all_kinds": '''
def f(a, b=2, /, c=3, *args, d, e=5, **kw):
    return (a, b, c, args, d, e, sorted(kw.items()))
r = [f(1, d=4), f(1, 2, 3, 4, 5, d=6, z=7), f(1, c=9, d=0, e=1), f(*[1, 2], **{'d': 3, 'q': 4})]
g = lambda x, *y, k=1, **z: (x, y, k, sorted(z))
r2 = g(1, 2, 3, k=4, m=5)
try_kw = f(1, 2, d=3)
print(r, r2, try_kw)
''',
    "global_nonlocal_mix": '''
total = 0
def outer():
    level = 1
    def middle():
        nonlocal level
        level += 1
        def inner():
            global total
            nonlocal level
            level *= 10
            total += level
            return level
        return inner()
    a = middle()
    b = middle()
    return a, b, level
res = outer()
print(res, total)
''',
    "class_features": '''
class Meta(type):
    def __new__(mcs, name, bases, ns, **kw):
        ns['tag'] = kw.get('tag', 'none')
        return super().__new__(mcs, name, bases, ns)
    def __init__(cls, name, bases, ns, **kw):
        super().__init__(name, bases, ns)
class Base(metaclass=Meta, tag='base'):
    kind = 'base'
    def __init__(self, v):
        self.v = v
    def describe(self):
        return f'{self.kind}:{self.v}'
    @staticmethod
    def helper(x):
        return x * 2
    @classmethod
    def make(cls, v):
        return cls(cls.helper(v))
    @property
    def double(self):
        return self.v * 2
class Child(Base, tag='child'):
    kind = 'child'
    def __init__(self, v, w=1):
        super().__init__(v)
        self.w = w
    def describe(self):
        return super().describe() + f'/{self.w}'
c = Child.make(4)
out = (c.describe(), c.double, Child.tag, Base.tag, type(Child).__name__, [k.__name__ for k in Child.__mro__])
print(out)
''',
    "comprehensions_nested": '''
n = 4
grid = [[i * j for j in range(n) if (i + j) % 2 == 0] for i in range(n)]
flat = {x for row in grid for x in row if x}
pairs = {k: [v for v in range(k) if v % 2] for k in range(n + 1)}
gen = sum(x * y for x in range(3) for y in range(x))
def in_func(m):
    k = 3
    return [(a, b, k) for a in range(m) for b in range(a) if (c := a + b) > 1 if c < k + m]
res = in_func(4)
print(grid, sorted(flat), pairs, gen, res)
''',
    "walrus_and_fstrings": '''
data = [3, 1, 4, 1, 5, 9, 2, 6]
seen = []
if (m := max(data)) > 5:
    seen.append(m)
k = 0
while k < 5:
    if (k := k + 2) % 4:
        seen.append(k)
width = 6
msg = f"{m:>{width}}|{k!r:<4}|{'x' * 2}|{data[1:3]}|{{lit}}|{m / 3:.2f}"
name = 'v'
msg2 = f'{name=}'
print(seen, msg, msg2, [y for x in data if (y := x * 2) > 8])
''',
    "control_flow_mix": '''
def search(rows, target):
    found = None
    for i, row in enumerate(rows):
        for j, v in enumerate(row):
            if v < 0:
                continue
            if v == target:
                found = (i, j)
                break
        else:
            continue
        break
    else:
        return 'none'
    n = 0
    while True:
        n += 1
        if n > 3:
            break
    else:
        n = -1
    return found, n
r = [search([[1, -2, 3], [4, 5, 6]], 5), search([[1]], 9), search([], 0)]
def early(x):
    if x > 2:
        for i in range(x):
            if i == 2:
                return ('loop', i)
        return 'after'
    elif x == 2:
        return 'two'
    return None
r2 = [early(i) for i in range(5)]
print(r, r2)
''',
    "imports": '''
import math
import os.path
import json as js
from collections import OrderedDict, defaultdict as dd
from os import path as p2
def area(r):
    from math import pi
    return round(pi * r * r, 3)
d = dd(list)
d['a'].append(1)
out = (math.floor(2.5), os.path.basename('/x/y.txt'), js.dumps({'k': [1, 2]}), list(OrderedDict(a=1)), p2.join('a', 'b'), area(2), dict(d))
print(out)
''',
    "decorators_and_recursion": '''
calls = []
def trace(label):
    def deco(fn):
        def wrapper(*a, **k):
            calls.append((label, a))
            return fn(*a, **k)
        return wrapper
    return deco
@trace('fib')
def fib(n):
    return n if n < 2 else fib(n - 1) + fib(n - 2)
def memo(fn):
    cache = {}
    def w(n):
        if n not in cache:
            cache[n] = fn(n)
        return cache[n]
    return w
@memo
@trace('fact')
def fact(n):
    return 1 if n <= 1 else n * fact(n - 1)
r = (fib(5), fact(5), fact(3), len(calls))
print(r)
''',
    "assignment_forms": '''
a = b = c = [0]
a[0] += 1
x, (y, *z), w = 1, (2, 3, 4), 5
d = {}
d['k'], d['j'] = x, y
class Box:
    pass
bx = Box()
bx.f = bx.g = z
bx.f[0] *= 2
i = 0
lst = [10, 20, 30]
lst[i], i = 99, 2
lst[i:i + 1] = [7, 8]
s = 'ab'
s *= 2
t = (1, 2)
t += (3,)
n = 5
n **= 2
n //= 3
n <<= 2
flags = 6
flags &= 3
flags |= 8
flags ^= 1
print(a, b is c, x, y, z, w, d, bx.g, lst, i, s, t, n, flags)
''',
    "lambda_and_scopes": '''
k = 10
fs = [lambda x, k=k: x + k for k in range(3)]
gs = [lambda x: x + k for _ in range(2)]
def mk():
    k = 100
    h = lambda: k + 1
    k = 200
    return h
class C:
    k = 1000
    f = lambda self: k
    vals = [k for _ in range(2)]
    g = [lambda: k for _ in range(1)]
out = ([f(1) for f in fs], [g(1) for g in gs], mk()(), C().f(), C.vals, C.g[0]())
print(out)
''',
    "string_and_literal_edge": '''
q = "it's"
dq = 'say "hi"'
both = 'a\\'b"c'
nl = 'line1\\nline2\\ttab\\\\back'
raw = r'\\d+\\n'
b = b'by\\x00te\\xff'
u = 'caf\\u00e9 \\U0001f600 \\x7f'
num = [0, 10 ** 20, 1.5e300, 1e-7, 0.1 + 0.2, 2j, -3, 0x1F, 0b101, 1_000]
spec = [f'{q!r}', f'{dq!s:>12}', f'{len(both):03d}', f'{nl!a}', f'{num[2]:.3e}', f'{"nested" + q}']
print(q, dq, both, repr(nl), raw, b, ascii(u), num, spec)
''',
    "method_frames": '''
class A:
    def who(self):
        return "A"
    @classmethod
    def make(cls):
        return "A.make"
    @property
    def p(self):
        return "A.p"
class B(A):
    def who(self):
        out = []
        for i in range(2):
            out.append(super().who() + str(i))
        n = 0
        while n < 1:
            n += 1
            out.append(super().who())
            if n:
                out.append(__class__.__name__)
        else:
            out.append(super().p)
        return out
    @classmethod
    def make(cls):
        r = []
        for _ in range(1):
            r.append(super().make())
        return r
    def tagged(self, key, /, *more, **kw):
        out = []
        for k in (key,) + more:
            out.append((super().who(), k, sorted(kw)))
        return out
    def after(self, /, x):
        n = 0
        while n < 1:
            n += 1
            x = super().who() + x
        return super().who() + x
    @property
    def p(self):
        k = 0
        while True:
            k += 1
            if k > 1:
                return super().p + "!"
def factory(base, suffix):
    class C(base):
        def who(self):
            res = []
            for s in (suffix, suffix * 2):
                res.append((super().who(), s, C.__name__))
            return res
    return C
print(B().who(), B.make(), B().p, factory(B, "x")().who()[1][1:])
print(B().tagged("t", "u", z=1), B().after("!"))
''',
    "string_values": '''
path = "C:\\\\temp\\\\new_file.txt"
sep = "\\\\"
esc = "line\\nbreak\\ttab \\\\n literal"
quotes = 'it\\'s "quoted"' + "\\x41\\u00e9"
raw = r"\\d+\\.\\w*"
fs = f"{path!r:>30}|{sep}|{len(esc)}|{raw}\\\\{quotes}"
by = b"\\\\x00\\\\\\xff"
print(path, sep, repr(esc), quotes, raw, fs, by, path.replace("\\\\", "/"), esc.replace("\\n", "\\\\n"))
''',
    "from_import_submodules": '''
import sys
sys.path.insert(0, '/verif/corpus')
from pkgroot import alpha, zeta as Z
from pkgroot.sub import leaf, sub_attr
def load():
    from pkgroot.sub.deep import bottom as b
    import pkgroot.sub.other as o
    return b.__name__, o.__name__
print(alpha.attr, Z.__name__, leaf.__name__, sub_attr, load(), sorted(m for m in sys.modules if m.startswith('pkgroot')))
''',
    "class_hooks": '''
def deco(f):
    def wrapped(*a, **k):
        return ('deco', f(*a, **k))
    return wrapped
class Base:
    subs = []
    @classmethod
    def __init_subclass__(cls, tag=None, **kw):
        super().__init_subclass__(**kw)
        Base.subs.append((cls.__name__, tag))
class A(Base, tag='a'):
    pass
class Plain:
    seen = []
    def __init_subclass__(cls, **kw):
        Plain.seen.append(cls.__name__)
    def __class_getitem__(cls, key):
        return (cls.__name__, key)
class P2(Plain):
    pass
class T2:
    @classmethod
    def __class_getitem__(cls, key):
        return (cls.__name__, key)
class T3:
    @deco
    def __class_getitem__(cls, key):
        return (cls.__name__, key)
    @deco
    def __init_subclass__(cls, **kw):
        T3.last = cls.__name__
class T4(T3):
    pass
print(Base.subs, Plain.seen, Plain[1], P2['k'], T2[2], T3[3], T3.last)
''',
    "class_body_scope": '''
x = 'global'
def f():
    x = 'enclosing'
    class A:
        y = x
        x = 'class'
        z = x
        def m(self):
            return x
        lst = [x for _ in range(1)]
    return A.y, A.z, A().m(), A.lst, A.x
r = f()
class B:
    x = x + '!'
    def get(self):
        return x
print(r, B.x, B().get())
''',
}
