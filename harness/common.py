"""Shared machinery of the checks: build, model runner, verdicts, evidence."""
import fcntl
import hashlib
import json
import os
import re
import subprocess
import sys
import time

VERIF = os.path.normpath(os.path.join(os.path.dirname(os.path.abspath(__file__)), ".."))
REPO = os.environ.get("OL_REPO", "/repo")
COQ = os.path.join(VERIF, "coq")
EXTRACT = os.path.join(VERIF, "extract")
MODELRUN = os.path.join(EXTRACT, "modelrun")
EVIDENCE = os.path.join(VERIF, "evidence")
REPLAYS = os.path.join(EVIDENCE, "replays")
PY = "/venv/bin/python"
PYENV = "/root/.pyenv/versions"
HOSTS = {"3.10": f"{PYENV}/3.10.13/bin/python", "3.11": f"{PYENV}/3.11.7/bin/python",
         "3.12": f"{PYENV}/3.12.1/bin/python", "3.13": f"{PYENV}/3.13.0/bin/python"}
RUNTIMES = dict(HOSTS, **{"3.8": f"{PYENV}/3.8.18/bin/python", "3.9": f"{PYENV}/3.9.18/bin/python"})
NCPU = min(16, os.cpu_count() or 4)


def child_env(**extra):
    env = dict(os.environ)
    env["PYTHONPATH"] = REPO + os.pathsep + VERIF
    env["PYTHONHASHSEED"] = env.get("PYTHONHASHSEED_FOR_CHILD", "0")
    env["PYTHONDONTWRITEBYTECODE"] = "1"
    env["ONELINER_PY_VERIF"] = "1"
    env.update(extra)
    return env


def sh(cmd, timeout=1800, cwd=None, env=None, input=None):
    p = subprocess.run(cmd, cwd=cwd, env=env, input=input, capture_output=True, text=True, timeout=timeout)
    out = "\n".join(l for l in (p.stdout + p.stderr).splitlines() if "conda.cli.condarc" not in l)
    return p.returncode, out


# ------------------------------------------------------------------------------------------------
# build

class Build:
    def __init__(self):
        self.tables = None          # dict from gen_tables
        self.tables_error = None
        self.make_ok = False
        self.make_log = ""
        self.failed_files = []
        self.binary_ok = False
        self.wall = 0.0


def _coq_project_files():
    files = []
    with open(os.path.join(COQ, "_CoqProject")) as f:
        for line in f:
            line = line.strip()
            if line.endswith(".v"):
                files.append(line)
    return files


def ensure_built(verbose=False):
    """Regenerate tables from REPO, rebuild the Coq development and the extracted binary.
    Serialised by a lock so that concurrent checks share one build."""
    t0 = time.time()
    b = Build()
    os.makedirs(os.path.join(VERIF, "build"), exist_ok=True)
    with open(os.path.join(VERIF, ".build.lock"), "w") as lock:
        fcntl.flock(lock, fcntl.LOCK_EX)
        rc, out = sh([PY, os.path.join(VERIF, "harness", "gen_tables.py")], env=child_env(), timeout=300)
        try:
            b.tables = json.loads(out.strip().splitlines()[-1])
        except Exception:
            b.tables = {"error": out[-2000:]}
        if rc != 0 or "error" in b.tables:
            b.tables_error = b.tables.get("error", out[-2000:])
        if not os.path.exists(os.path.join(COQ, "Makefile")) or \
                os.path.getmtime(os.path.join(COQ, "Makefile")) < os.path.getmtime(os.path.join(COQ, "_CoqProject")):
            sh(["coq_makefile", "-f", "_CoqProject", "-o", "Makefile"], cwd=COQ)
        rc, out = sh(["timeout", "1500", "make", "-k", f"-j{NCPU}"], cwd=COQ, timeout=1600)
        b.make_log = out
        b.make_ok = rc == 0
        b.failed_files = sorted(set(re.findall(r'File "\./([^"]+\.v)", line \d+, characters [\d-]+:\s*\n?Error', out)))
        if not b.make_ok and not b.failed_files:
            b.failed_files = sorted(set(re.findall(r"\*\*\* \[[^\]]*?: ([^\]]+?)\.vo\] Error", out)))
        # extracted binary: rebuild if any .vo is newer than it
        need = not os.path.exists(MODELRUN)
        if not need:
            mt = os.path.getmtime(MODELRUN)
            for root in (os.path.join(COQ, "theories"), os.path.join(COQ, "gen")):
                for fn in os.listdir(root):
                    if fn.endswith(".vo") and os.path.getmtime(os.path.join(root, fn)) > mt:
                        need = True
            for fn in ("driver.ml",):
                if os.path.getmtime(os.path.join(EXTRACT, fn)) > mt:
                    need = True
            if os.path.getmtime(os.path.join(COQ, "Extract.v")) > mt:
                need = True
        if need and os.path.exists(os.path.join(COQ, "theories", "Run.vo")):
            rc1, out1 = sh(["timeout", "600", "coqc", "-Q", "../coq/theories", "OL", "-Q", "../coq/gen", "OLGen",
                            "../coq/Extract.v"], cwd=EXTRACT, timeout=700)
            rc2, out2 = sh(["ocamlfind", "ocamlopt", "-O3", "-w", "-a", "modelrun_core.mli", "modelrun_core.ml",
                            "driver.ml", "-o", "modelrun"], cwd=EXTRACT, timeout=600)
            b.binary_ok = rc1 == 0 and rc2 == 0
            if not b.binary_ok:
                b.make_log += "\n--- extraction ---\n" + out1 + out2
        else:
            b.binary_ok = os.path.exists(MODELRUN)
        fcntl.flock(lock, fcntl.LOCK_UN)
    b.wall = time.time() - t0
    return b


_THM_RE = re.compile(r"^\s*(Theorem|Lemma|Corollary|Example|Fact|Proposition|Remark)\s+([A-Za-z0-9_']+)", re.M)


def count_obligations(vfiles):
    """Names of all statements closed by Qed in the given .v files (relative to coq/)."""
    names = []
    for vf in vfiles:
        p = os.path.join(COQ, vf)
        if not os.path.exists(p):
            continue
        txt = open(p).read()
        for m in _THM_RE.finditer(txt):
            names.append(f"{vf}:{m.group(2)}")
    return names


def forbidden_scan():
    """The development must not contain any escape hatch."""
    bad = []
    pat = re.compile(r"\b(Admitted|admit|Axiom|Parameter|Conjecture|Admit Obligations|Unset Guard Checking|"
                     r"bypass_check|Unset Positivity Checking|Unset Universe Checking|type-in-type|impredicative-set)\b")
    for root, _, files in os.walk(COQ):
        for fn in files:
            if fn.endswith(".v") or fn == "_CoqProject":
                for i, line in enumerate(open(os.path.join(root, fn), errors="replace"), 1):
                    code = re.sub(r"\(\*.*?\*\)", "", line)
                    if pat.search(code):
                        bad.append(f"{os.path.relpath(os.path.join(root, fn), COQ)}:{i}: {line.strip()[:120]}")
    return bad


def check_property_file(prop):
    """Re-compile Properties/<prop>.v on its own (dependencies were built by make) and collect the
    Print Assumptions output.  Returns (ok, assumptions_text, log)."""
    vf = os.path.join("Properties", f"{prop}.v")
    if not os.path.exists(os.path.join(COQ, vf)):
        return False, "", f"{vf} missing"
    rc, out = sh(["timeout", "900", "coqc", "-Q", "theories", "OL", "-Q", "gen", "OLGen", "-Q", "Properties", "OLProps",
                  "-w", "-notation-overridden,-deprecated-hint-without-locality,-ambiguous-paths", vf],
                 cwd=COQ, timeout=1000)
    return rc == 0, out, out


def parse_assumptions(out):
    """Split coqc output into the answers of the Print Assumptions commands."""
    closed = len(re.findall(r"Closed under the global context", out))
    axioms = re.findall(r"^Axioms:\n((?:.+\n?)+?)(?:\n|$)", out, re.M)
    return closed, axioms


# ------------------------------------------------------------------------------------------------
# model runner

def model_eval(lines, shards=None):
    """Evaluate command lines with the extracted model; returns list of answer strings."""
    if not lines:
        return []
    shards = shards or (1 if len(lines) < 200 else NCPU)
    chunks = [lines[i::shards] for i in range(shards)]
    procs = []
    import tempfile
    for ch in chunks:
        f = tempfile.TemporaryFile("w+")
        f.write("\n".join(ch) + "\n")
        f.seek(0)
        procs.append(subprocess.Popen([MODELRUN], stdin=f, stdout=subprocess.PIPE, text=True,
                                      preexec_fn=_big_stack))
    outs = []
    for p in procs:
        o, _ = p.communicate()
        outs.append(o.splitlines())
    res = [None] * len(lines)
    for s, o in enumerate(outs):
        idxs = list(range(s, len(lines), shards))
        for k, i in enumerate(idxs):
            res[i] = o[k] if k < len(o) else "(bad crashed)"
    return res


def _big_stack():
    import resource
    try:
        resource.setrlimit(resource.RLIMIT_STACK, (resource.RLIM_INFINITY, resource.RLIM_INFINITY))
    except Exception:
        try:
            resource.setrlimit(resource.RLIMIT_STACK, (1 << 30, 1 << 30))
        except Exception:
            pass


def coq_eval(lines, timeout=600):
    """Cross-check of the extraction: evaluate the same command lines inside Coq with vm_compute."""
    import tempfile
    d = tempfile.mkdtemp(prefix="olcases_")
    try:
        src = ["From Coq Require Import String List.", "From OL Require Import Run.", "Import ListNotations.",
               "Open Scope string_scope.", "Definition cases : list string := ["]
        src.append(";\n".join('"' + l.replace('"', '""') + '"' for l in lines))
        src.append("].")
        src.append("Definition sep : string := String (Ascii.ascii_of_nat 10) EmptyString.")
        src.append('Definition out := Eval vm_compute in String.concat sep (map run_line cases).')
        src.append("Redirect \"out\" Eval vm_compute in out.")
        with open(os.path.join(d, "cases.v"), "w") as f:
            f.write("\n".join(src) + "\n")
        rc, out = sh(["coqc", "-Q", os.path.join(COQ, "theories"), "OL", "-Q", os.path.join(COQ, "gen"), "OLGen",
                      "cases.v"], cwd=d, timeout=timeout)
        if rc != 0:
            return None, out
        txt = open(os.path.join(d, "out.out")).read()
        m = re.search(r'= "(.*)"\s*: string', txt, re.S)
        if not m:
            return None, txt[:500]
        body = m.group(1).replace('""', '"')
        return body.split("\n"), ""
    finally:
        import shutil
        shutil.rmtree(d, ignore_errors=True)


def decode_cps(ans):
    """(ok (n n n)) -> str, else None"""
    m = re.match(r"^\(ok \(([\d ]*)\)\)$", ans)
    if not m:
        return None
    return "".join(chr(int(n)) for n in m.group(1).split())


# ------------------------------------------------------------------------------------------------
# known findings

def load_known():
    p = os.path.join(VERIF, "known_findings.json")
    if not os.path.exists(p):
        return {"findings": [], "fixed": []}
    return json.load(open(p))


# ------------------------------------------------------------------------------------------------
# verdict

class Check:
    def __init__(self, prop, tier, seed):
        self.prop, self.tier, self.seed = prop, tier, seed
        self.t0 = time.time()
        self.obligations = []       # names
        self.discharged = []        # names
        self.broken = []            # dicts {kind, what, message}
        self.violations = []        # dicts (failing inputs on the real code)
        self.known_hits = []        # (finding id, text)
        self.coverage = {}
        self.samples = []
        self.assumptions = []
        self.trusted = []
        self.notes = []
        self.evaluations = 0
        self.distinct = set()

    def note_case(self, key):
        self.evaluations += 1
        self.distinct.add(hashlib.sha1(repr(key).encode()).hexdigest()[:16])

    def add_broken(self, kind, what, message=""):
        self.broken.append({"kind": kind, "what": what, "message": message[-3000:]})

    def add_violation(self, what, **data):
        self.violations.append(dict(what=what, **data))

    def finish(self):
        os.makedirs(REPLAYS, exist_ok=True)
        wall = time.time() - self.t0
        lines = []
        exit_code = 0
        for fid, text in self.known_hits:
            lines.append(f"KNOWN-FINDING: property={self.prop} {fid} {text}")
        replay = None
        if self.violations:
            v = self.violations[0]
            h = hashlib.sha1(json.dumps(v, sort_keys=True, default=str).encode()).hexdigest()[:12]
            replay = os.path.join(REPLAYS, f"{self.prop}-{h}.json")
            with open(replay, "w") as f:
                json.dump({"property": self.prop, "kind": "failing-input", "violation": v,
                           "all_violations": self.violations[:20], "broken_obligations": self.broken,
                           "replay_cmd": f"./check {self.prop} --replay {replay}"}, f, indent=1, default=str)
            lines.append(f"VIOLATION property={self.prop} replay={replay}")
            exit_code = 1
        elif self.broken:
            h = hashlib.sha1(json.dumps(self.broken, sort_keys=True).encode()).hexdigest()[:12]
            replay = os.path.join(REPLAYS, f"{self.prop}-{h}.json")
            with open(replay, "w") as f:
                json.dump({"property": self.prop, "kind": "broken-obligation", "obligations": self.broken,
                           "note": "a proof obligation or a model/code correspondence no longer checks and the search "
                                   "found no input on which the property itself fails on the real code"}, f, indent=1)
            lines.append(f"VIOLATION property={self.prop} replay={replay} no-failing-input-found")
            exit_code = 1
        ev = {
            "property_id": self.prop,
            "tier": self.tier,
            "seed": self.seed,
            "level": "proof",
            "wall_s": round(wall, 2),
            "violations": len(self.violations) + (1 if (self.broken and not self.violations) else 0),
            "assumptions": self.trusted,
            "coverage": dict({
                "obligations": len(self.obligations),
                "discharged": len(self.discharged),
                "checker_cmd": f"cd /verif/coq && make && coqc Properties/{self.prop}.v  (via ./check {self.prop})",
                "trusted_base": self.trusted,
                "print_assumptions": self.assumptions,
                "obligation_names": self.obligations,
                "broken_obligations": self.broken,
                "evaluations": self.evaluations,
                "distinct_nontrivial": len(self.distinct),
                "rule": "support only (never the proof): each evaluation is one generated input run through the model "
                        "and the implementation and/or through the property's direct oracle on the real code; "
                        "distinct = distinct input hashes",
                "samples": self.samples[:8],
                "known_findings_confirmed": [k for k, _ in self.known_hits],
                "notes": self.notes,
            }, **self.coverage),
        }
        os.makedirs(EVIDENCE, exist_ok=True)
        with open(os.path.join(EVIDENCE, f"{self.prop}.json"), "w") as f:
            json.dump(ev, f, indent=1, default=str)
        for l in lines:
            print(l)
        print(f"[{self.prop}] tier={self.tier} obligations={len(self.discharged)}/{len(self.obligations)} "
              f"evaluations={self.evaluations} broken={len(self.broken)} violations={len(self.violations)} "
              f"known={len(self.known_hits)} wall={wall:.1f}s")
        return exit_code


COMMON_TRUST = [
    "Coq 8.16.1 kernel (coqc); vm_compute is used for finite table side-conditions and witnesses; no native_compute",
    "axioms: none declared; Print Assumptions output of every property theorem is recorded in coverage.print_assumptions",
    "extraction: ExtrOcamlBasic + ExtrOcamlString only (no Extract Constant/Inductive of our own), OCaml 4.13.1, extract/driver.ml (line I/O)",
    "harness/gen_tables.py (tables regenerated from /repo's source on every run) and harness/sexp.py (AST/symtable serialisation)",
    "CPython (ast.parse, symtable, compile/eval/exec, repr) is the definition of Python; reference semantics in Coq are models of it validated by correspondence, not verified",
    "all of /repo is modelled (hand-written Gallina re-implementation), not verified directly; the tie is generated tables + differential correspondence on every run",
]


def standard_proof_part(chk, build, vfiles):
    """Fill obligations/discharged/assumptions for property chk.prop; vfiles = theory files it rests on."""
    chk.trusted = list(COMMON_TRUST)
    bad = forbidden_scan()
    if bad:
        chk.add_broken("forbidden-construct", "escape hatch in the development", "\n".join(bad))
    names = count_obligations(list(vfiles) + [f"Properties/{chk.prop}.v"])
    chk.obligations = names
    if build.tables_error:
        chk.add_broken("translator", "harness/gen_tables.py could not regenerate Tables.v from /repo", build.tables_error)
    failed = set(build.failed_files)
    ok, out, log = check_property_file(chk.prop)
    closed, axioms = parse_assumptions(out)
    chk.assumptions = [f"{closed} theorem(s): Closed under the global context"] + [a.strip() for a in axioms]
    if axioms:
        chk.add_broken("axioms", f"Print Assumptions of Properties/{chk.prop}.v lists axioms", "\n".join(axioms))
    if not ok:
        m = re.search(r'File "\./?([^"]+)", line (\d+)', log)
        where = f"{m.group(1)}:{m.group(2)}" if m else f"Properties/{chk.prop}.v"
        chk.add_broken("proof", f"coqc no longer accepts {where}", log)
    for vf in vfiles:
        if vf in failed or not os.path.exists(os.path.join(COQ, vf[:-2] + ".vo")):
            chk.add_broken("proof", f"{vf} does not compile", _excerpt(build.make_log, vf))
    brokenfiles = {b["what"] for b in chk.broken if b["kind"] == "proof"}
    if not brokenfiles:
        chk.discharged = list(names)
    else:
        chk.discharged = [n for n in names if not any(n.split(":")[0] in w for w in brokenfiles)]
        if not ok:
            chk.discharged = [n for n in chk.discharged if not n.startswith(f"Properties/{chk.prop}.v")]
    return ok


def _excerpt(log, vf):
    i = log.find(vf)
    return log[max(0, i - 200): i + 2500] if i >= 0 else log[-2500:]
