import builtins as _b
_b.__dict__.setdefault('_ol_import_log', []).append(__name__)
top_attr = 'top'
ZERO = 0
FLAG = False
EMPTY = ''
NOTHING = None
NOLIST = []
