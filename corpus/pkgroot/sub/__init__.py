import builtins as _b
_b.__dict__.setdefault('_ol_import_log', []).append(__name__)
sub_attr = 'sub'
sub_zero = 0.0
sub_empty = ()
