import builtins as _b
_b.__dict__.setdefault('_ol_import_log', []).append(__name__)
bottom_attr = 'bottom'
